// C30 Constant folding and propagation preserve program meaning.
//
// Enumerated (bounded-exhaustive): expression SHAPES (operator trees) x all
// tuples of constants from a typed constant alphabet (ints incl. 32/64 bit
// edges, decimals, strings incl. "" and numeric strings, booleans, dates,
// objects):
//
//	depth 1: every unary (- + not ~), every binary (arithmetic, bit, shift,
//	         compare, $, =~ !~, and, or), `in`, ?:, every n-ary chain of 3
//	         (and or + * $ - / and the mixed + - and * / chains)
//	depth 2: unary over binary, binary over unary, binary over binary (both
//	         sides), ?: over a binary condition, unary over unary
//	propagation: program templates with single-assignment locals
//	         (x = C1; y = x op C2; …; if / and / or / ?: / loop around them)
//
// Every case is compiled and run in these VARIANTS by the real compiler and
// interpreter:
//
//	ref    every constant is a parameter, the constant values are passed as
//	       arguments: nothing can be folded or propagated – the meaning "as
//	       evaluated at run time"
//	const  as written, all constants in place (folder + propagation run)
//	mixed  one leaf is a parameter, the others are constants (partial folding,
//	       canonicalisation such as `5 < p` => `p > 5`, constant collection in
//	       n-ary chains)
//
// Oracle (the statement: same result or same exception): const/mixed must give
// a value Equal to ref's with the same type and display text, or the same
// exception text. Because evaluation moves to compile time, an exception may
// surface from compile instead of from the call; then its text must be the
// run-time text after removing the compiler's "compile error @N " position
// prefix. The folder's deliberate static diagnostics ("cannot do math on T
// literal", "?: requires boolean", "if requires boolean") reject a program at
// compile time; a rejected program has no result to compare, this is accepted
// only when the diagnostic is justified by the case itself (a literal of that
// non-number type is present / the condition literal is not a boolean).
package main

import (
	"encoding/json"
	"fmt"
	"math"
	"os"
	"regexp"
	"strings"
	"sync"

	_ "github.com/apmckinlay/gsuneido/builtin"
	"github.com/apmckinlay/gsuneido/compile"
	. "github.com/apmckinlay/gsuneido/core"
	"github.com/apmckinlay/gsuneido/util/dnum"

	"verif/lib"
)

// ---------------------------------------------------------------- constants

type konst struct {
	Text string // source text (parenthesised where needed)
	Type string // Number | String | Boolean | Date | Object
	val  Value
}

func mkConsts(texts ...string) []konst {
	var out []konst
	for _, t := range texts {
		v := compile.Constant(t) // literal parser only (no folder involved)
		k := konst{Text: t, Type: v.Type().String(), val: v}
		if strings.HasPrefix(t, "-") {
			k.Text = "(" + t + ")"
		}
		out = append(out, k)
	}
	return out
}

var allConsts, midConsts, fewConsts, flowConsts []konst

func initConsts() {
	allConsts = mkConsts("0", "1", "-1", "2", "7", "255", "2147483647", "2147483648", "4294967295", "9223372036854775807",
		".5", "1.5", "-2.5", "1e20", "1e-20",
		`""`, `"a"`, `"abc"`, `"1"`, `"1.5"`, `"true"`, `"^a"`, `"["`,
		"true", "false", "#20200101", "#20200101.1234", "#()", "#(1)")
	midConsts = mkConsts("0", "1", "-1", "7", "2147483647", "4294967295", "9223372036854775807", ".5", "1e20",
		`""`, `"a"`, `"1"`, `"^a"`, "true", "false", "#20200101", "#(1)")
	flowConsts = mkConsts("1", "2", "3", `"a"`, "1.5", "true")
	fewConsts = mkConsts("0", "1", "-1", "9223372036854775807", "1.5", "1e20", `""`, `"a"`, "true", "false", "#20200101", "#()")
}

// ---------------------------------------------------------------- shapes

// A shape is a program template with numbered holes «0» «1» … filled either
// with a constant's text or with the parameter name p<i>.
type shape struct {
	Name   string
	Tmpl   string // body of the function, holes written as «i»
	N      int    // number of holes
	consts []konst
	Cond   int // hole index that is a ?: / if condition (-1 if none): for the static-diagnostic justification
}

var unaryOps = []string{"-", "+", "not ", "~"}
var binaryOps = []string{"+", "-", "*", "/", "%", "&", "|", "^", "<<", ">>", "is", "isnt", "<", "<=", ">", ">=", "$", "=~", "!~", "and", "or"}

func h(i int) string { return fmt.Sprintf("«%d»", i) }

func shapes(c *lib.Ctx) []shape {
	var out []shape
	add := func(name, tmpl string, n int, cs []konst, cond int) {
		out = append(out, shape{Name: name, Tmpl: tmpl, N: n, consts: cs, Cond: cond})
	}
	ret := func(e string) string { return "return " + e }
	// depth 1
	for _, u := range unaryOps {
		add("unary "+u, ret(u+h(0)), 1, allConsts, -1)
	}
	for _, b := range binaryOps {
		add("binary "+b, ret(h(0)+" "+b+" "+h(1)), 2, allConsts, -1)
	}
	add("in", ret(h(0)+" in ("+h(1)+", "+h(2)+")"), 3, midConsts, -1)
	add("not in", ret(h(0)+" not in ("+h(1)+", "+h(2)+")"), 3, midConsts, -1)
	add("?:", ret(h(0)+" ? "+h(1)+" : "+h(2)), 3, midConsts, 0)
	for _, ops := range [][2]string{{"and", "and"}, {"or", "or"}, {"and", "or"}, {"or", "and"}, {"+", "+"}, {"*", "*"}, {"$", "$"}, {"-", "-"}, {"/", "/"},
		{"+", "-"}, {"-", "+"}, {"*", "/"}, {"/", "*"}, {"+", "*"}, {"*", "+"}, {"|", "|"}, {"&", "&"}, {"^", "^"}, {"$", "+"}, {"<", "<"}, {"is", "is"}} {
		add("chain "+ops[0]+" "+ops[1], ret(h(0)+" "+ops[0]+" "+h(1)+" "+ops[1]+" "+h(2)), 3, midConsts, -1)
	}
	// depth 2
	d2 := lib.Pick(c, fewConsts[:8], fewConsts)
	for _, u := range unaryOps {
		for _, u2 := range unaryOps {
			add("unary unary", ret(u+"("+u2+h(0)+")"), 1, allConsts, -1)
		}
		for _, b := range binaryOps {
			add("unary(binary)", ret(u+"("+h(0)+" "+b+" "+h(1)+")"), 2, midConsts, -1)
			add("binary(unary,c)", ret("("+u+h(0)+") "+b+" "+h(1)), 2, midConsts, -1)
			add("binary(c,unary)", ret(h(0)+" "+b+" ("+u+h(1)+")"), 2, midConsts, -1)
		}
	}
	for _, b1 := range binaryOps {
		for _, b2 := range binaryOps {
			add("binary(binary,c)", ret("("+h(0)+" "+b1+" "+h(1)+") "+b2+" "+h(2)), 3, d2, -1)
			add("binary(c,binary)", ret(h(0)+" "+b2+" ("+h(1)+" "+b1+" "+h(2)+")"), 3, d2, -1)
		}
		add("?:(binary)", ret("("+h(0)+" "+b1+" "+h(1)+") ? "+h(2)+" : 'f'"), 3, d2, -1)
	}
	// propagation through single-assignment locals
	for _, b := range binaryOps {
		add("prop x op c", "x = "+h(0)+"; return x "+b+" "+h(1), 2, midConsts, -1)
		add("prop c op x", "x = "+h(0)+"; return "+h(1)+" "+b+" x", 2, midConsts, -1)
		add("prop y = x op c; y op x", "x = "+h(0)+"; y = x "+b+" "+h(1)+"; return y "+b+" x", 2, midConsts, -1)
		add("prop if", "x = "+h(0)+"; if x "+b+" "+h(1)+" { return 'then' }; return x", 2, midConsts, -1)
		add("prop if else", "x = "+h(0)+"; y = "+h(1)+"; if (x "+b+" y) { z = 'T' } else { z = 'F' }; return z", 2, midConsts, -1)
		add("prop loop", "x = "+h(0)+"; r = 'none'; for (i = 0; i < 2; ++i) { y = x "+b+" "+h(1)+"; r = y }; return r", 2, midConsts, -1)
		add("prop block", "x = "+h(0)+"; b = { x "+b+" "+h(1)+" }; return b()", 2, midConsts, -1)
	}
	for _, u := range unaryOps {
		add("prop unary", "x = "+h(0)+"; y = "+u+"x; return y", 1, allConsts, -1)
	}
	add("prop ?:", "x = "+h(0)+"; return x ? "+h(1)+" : "+h(2), 3, midConsts, -1)
	add("prop and", "x = "+h(0)+"; y = "+h(1)+"; return x and y and "+h(2), 3, midConsts, -1)
	add("prop or", "x = "+h(0)+"; y = "+h(1)+"; return x or y or "+h(2), 3, midConsts, -1)
	add("prop in", "x = "+h(0)+"; return x in ("+h(1)+", "+h(2)+")", 3, midConsts, -1)
	add("prop range", "x = "+h(0)+"; return x > "+h(1)+" and x < "+h(2), 3, midConsts, -1)
	add("prop range2", "x = "+h(0)+"; return x >= "+h(1)+" and x <= "+h(2), 3, midConsts, -1)
	add("prop or-is", "x = "+h(0)+"; return x is "+h(1)+" or x is "+h(2), 3, midConsts, -1)
	add("prop chain", "x = "+h(0)+"; y = x; z = y; return z $ "+h(1), 2, allConsts, -1)
	add("prop not-final", "x = "+h(0)+"; x = "+h(1)+"; return x", 2, midConsts, -1)
	add("prop cond-assign", "if "+h(0)+" { x = "+h(1)+" } else { x = "+h(2)+" }; return x", 3, midConsts, 0)
	// propagation vs control flow: a single-assignment local is assigned on one
	// path and read on another (hole 2 selects the path at run time or, as a
	// constant, at compile time); the folded program must not know the value on a
	// path that does not pass the assignment
	for _, f := range [][2]string{
		{"switch later case", "switch " + h(2) + " { case 1: x = " + h(0) + "; r = x $ " + h(1) + " case 2: r = x $ " + h(1) + " default: r = 'd' }; return r"},
		{"switch earlier case", "switch " + h(2) + " { case 1: r = x $ " + h(1) + " case 2: x = " + h(0) + "; r = x $ " + h(1) + " default: r = 'd' }; return r"},
		{"switch case expression", "switch " + h(2) + " { case 1: x = " + h(0) + "; r = 'a' case x: r = 'm' default: r = 'd' }; return r"},
		{"switch default", "switch " + h(2) + " { case 1: x = " + h(0) + "; r = 'a' default: r = x $ " + h(1) + " }; return r"},
		{"switch then after", "switch " + h(2) + " { case 1: x = " + h(0) + " case 2: r = 'b' default: r = 'd' }; return x $ " + h(1)},
		{"switch same case", "switch " + h(2) + " { case 1: x = " + h(0) + "; return x $ " + h(1) + " case 2: return 'b' }; return 'n'"},
		{"if else other branch", "if " + h(2) + " is 1 { x = " + h(0) + "; r = x $ " + h(1) + " } else { r = x $ " + h(1) + " }; return r"},
		{"if then later if", "if " + h(2) + " is 1 { x = " + h(0) + " }; if " + h(2) + " isnt 3 { return x $ " + h(1) + " }; return 'n'"},
		{"while body", "i = 0; r = 'none'; while i++ < 2 { if i is " + h(2) + " { x = " + h(0) + " } else { r = x $ " + h(1) + " } }; return r"},
		{"for-in body", "x = " + h(0) + "; r = ''; for y in #(1, 2) { if y is " + h(2) + " { r $= x $ " + h(1) + " } }; return r"},
		{"try catch", "try { if " + h(2) + " is 1 { throw 'e' }; x = " + h(0) + "; r = x $ " + h(1) + " } catch (e) { r = x $ " + h(1) + " }; return r"},
		{"?: arms", "r = " + h(2) + " is 1 ? (x = " + h(0) + ") : 'o'; return " + h(2) + " is 3 ? 'n' : r $ x $ " + h(1)},
		{"and rhs", "r = " + h(2) + " is 1 and (x = " + h(0) + ") isnt 'zz'; return " + h(2) + " is 3 ? r : x $ " + h(1)},
		{"block maybe called", "b = { x = " + h(0) + " }; if " + h(2) + " is 1 { b() }; return " + h(2) + " is 3 ? 'n' : x $ " + h(1)},
	} {
		add("flow "+f[0], f[1], 3, flowConsts, -1)
	}
	add("param range", "return «0» > "+h(1)+" and «0» < "+h(2), 3, midConsts, -1)
	add("param or-is", "return «0» is "+h(1)+" or «0» is "+h(2), 3, midConsts, -1)
	return out
}

// fill instantiates a template: holes in `params` become p<i>, others the constant text
func (s *shape) fill(tuple []int, params uint) string {
	body := s.Tmpl
	for i := 0; i < s.N; i++ {
		rep := s.consts[tuple[i]].Text
		if params&(1<<uint(i)) != 0 {
			rep = fmt.Sprintf("p%d", i)
		}
		body = strings.ReplaceAll(body, h(i), rep)
	}
	return "function (p0 = 0, p1 = 0, p2 = 0) { " + body + " }"
}

// ---------------------------------------------------------------- execution

type outcome struct {
	Kind string // "value" | "exception" | "compile"
	Text string // display text / exception text
	Type string
	val  Value
}

func (o outcome) String() string {
	if o.Kind == "value" {
		return "value " + o.Text + " (" + o.Type + ")"
	}
	return o.Kind + " error: " + o.Text
}

var rxPrefix = regexp.MustCompile(`^(compile error @-?\d+ |syntax error @-?\d+ )+`)

type worker struct {
	th *Thread
}

func (w *worker) compile(src string) (fn Value, o *outcome) {
	if e := lib.Try(func() { fn = compile.Constant(src) }); e != nil {
		return nil, &outcome{Kind: "compile", Text: rxPrefix.ReplaceAllString(lib.PanicText(e), "")}
	}
	return fn, nil
}

func (w *worker) call(fn Value, args []Value) outcome {
	var res Value
	e := lib.Try(func() { res = w.th.Call(fn, args...) })
	if e != nil {
		w.th.Reset()
		return outcome{Kind: "exception", Text: lib.PanicText(e)}
	}
	if res == nil {
		return outcome{Kind: "value", Text: "<nil>", Type: "nil"}
	}
	var o outcome
	if e := lib.Try(func() { o = outcome{Kind: "value", Text: Display(nil, res), Type: res.Type().String(), val: res} }); e != nil {
		return outcome{Kind: "exception", Text: "display of result: " + lib.PanicText(e)}
	}
	return o
}

// ---------------------------------------------------------------- oracle

type failCase struct {
	Shape  string   `json:"shape"`
	Tmpl   string   `json:"template"`
	Consts []string `json:"constants"`
	Params uint     `json:"params_mask"`
	Src    string   `json:"source"`
	RefSrc string   `json:"reference_source"`
}

var rxMath = regexp.MustCompile(`^cannot do math on (\w+) literal$`)

// result types of the operators (for the justification of a static
// "cannot do math on T literal" diagnostic on a folded intermediate)
var boolOps = []string{"is", "isnt", "<", "<=", ">", ">=", "=~", "!~", "and", "or", "in", "not"}

func tmplHas(s *shape, ops ...string) bool {
	for _, op := range ops {
		if strings.Contains(s.Tmpl, " "+op+" ") || strings.Contains(s.Tmpl, "("+op+" ") || strings.Contains(s.Tmpl, op+"(") ||
			strings.Contains(s.Tmpl, "return "+op) || strings.Contains(s.Tmpl, "= "+op) {
			return true
		}
	}
	return false
}

// judge compares the outcome of a folded variant with the reference outcome.
// verdicts: "ok", "static" (accepted static rejection), "order" (accepted: both
// fail, the compile-time error of a constant subexpression comes first),
// "bad" (with the class computed by classify).
func judge(s *shape, tuple []int, params uint, got, ref outcome) (verdict, msg string) {
	switch got.Kind {
	case "value":
		if ref.Kind != "value" {
			return "bad", fmt.Sprintf("folded program returns %s but evaluating at run time gives %s", got, ref)
		}
		if got.val == nil || ref.val == nil {
			if got.Text != ref.Text {
				return "bad", fmt.Sprintf("folded %s, run time %s", got, ref)
			}
			return "ok", ""
		}
		eq := false
		if e := lib.Try(func() { eq = got.val.Equal(ref.val) && ref.val.Equal(got.val) }); e != nil || !eq ||
			got.Type != ref.Type || got.Text != ref.Text {
			return "bad", fmt.Sprintf("folded program returns %s but evaluating at run time gives %s", got, ref)
		}
		return "ok", ""
	case "exception":
		if ref.Kind == "exception" && ref.Text == got.Text {
			return "ok", ""
		}
		return "bad", fmt.Sprintf("folded program: %s; evaluating at run time: %s", got, ref)
	case "compile":
		// exception moved to compile time: same text
		if ref.Kind == "exception" && ref.Text == got.Text {
			return "ok", ""
		}
		// deliberate static diagnostics of the folder, accepted when justified by
		// this very case: a literal (or folded intermediate) of that type exists
		if m := rxMath.FindStringSubmatch(got.Text); m != nil && m[1] != "Number" {
			for i := 0; i < s.N; i++ {
				if params&(1<<uint(i)) == 0 && s.consts[tuple[i]].Type == m[1] {
					return "static", ""
				}
			}
			if m[1] == "Boolean" && tmplHas(s, boolOps...) || m[1] == "String" && tmplHas(s, "$") {
				return "static", ""
			}
		}
		if strings.HasPrefix(got.Text, "possibly uninitialized variable") {
			// the compiler's static diagnostic for a single-assignment local read on
			// a path that does not pass the assignment: the program is outside the
			// domain (it is the folded program being ACCEPTED with a wrong value that
			// the flow shapes look for)
			return "static", ""
		}
		if got.Text == "?: requires boolean" || got.Text == "if requires boolean" {
			return "static", "" // the condition folded to a non-boolean constant; run time would raise its own error or never get there
		}
		if strings.HasPrefix(got.Text, "ASSERT") || strings.Contains(got.Text, "ShouldNotReachHere") {
			return "bad", fmt.Sprintf("compiler assertion: %s; evaluating at run time gives %s", got.Text, ref)
		}
		if ref.Kind == "exception" {
			// Both fail. The compile-time text is the error of a constant
			// subexpression evaluated on its own; at run time another
			// erroneous operand is evaluated first. Accepted (counted).
			return "order", ""
		}
		return "bad", fmt.Sprintf("folded program is rejected at compile time: %s; evaluating at run time gives %s", got.Text, ref)
	}
	return "bad", "unknown outcome kind"
}

var devLog sync.Mutex

func failClass(c *lib.Ctx, class string, cs any, format string, a ...any) {
	if lf := os.Getenv("VERIF_DEV_LOG"); lf != "" && class == "" {
		// development aid: log every unclassified failure instead of stopping after five
		devLog.Lock()
		if f, err := os.OpenFile(lf, os.O_APPEND|os.O_CREATE|os.O_WRONLY, 0o644); err == nil {
			fmt.Fprintf(f, format+"\n", a...)
			f.Close()
		}
		devLog.Unlock()
		c.Count("dev_logged", 1)
		return
	}
	for _, ig := range strings.Split(os.Getenv("VERIF_DEV_IGNORE"), ",") {
		if ig == class && class != "" {
			c.Count("dev_ignored:"+class, 1)
			return
		}
	}
	c.Fail(class, cs, format, a...)
}

// checkTuple runs one (shape, constant tuple) in all variants.
// refFn is the compiled all-parameters program of the shape.
func (w *worker) checkTuple(c *lib.Ctx, s *shape, refFn Value, refSrc string, tuple []int, stats *stats) {
	args := make([]Value, 3)
	for i := range args {
		args[i] = Zero
		if i < s.N {
			args[i] = s.consts[tuple[i]].val
		}
	}
	ref := w.call(refFn, args)
	stats.refKinds[ref.Kind]++
	all := uint(1)<<uint(s.N) - 1
	// variants: all constants (mask 0), one parameter (each single bit)
	masks := []uint{0}
	if s.N > 1 {
		for i := 0; i < s.N; i++ {
			masks = append(masks, 1<<uint(i))
		}
	}
	for _, mask := range masks {
		if mask == all {
			continue
		}
		src := s.fill(tuple, mask)
		stats.evals++
		var got outcome
		fn, co := w.compile(src)
		if co != nil {
			got = *co
		} else {
			got = w.call(fn, args)
		}
		verdict, msg := judge(s, tuple, mask, got, ref)
		switch verdict {
		case "static":
			stats.static++
		case "order":
			stats.order++
		}
		if got.Kind == "value" && ref.Kind == "value" && mask == 0 {
			stats.valueAgree++
		}
		if verdict == "bad" {
			texts := make([]string, s.N)
			for i := range texts {
				texts[i] = s.consts[tuple[i]].Text
			}
			cls := classify(s, tuple, mask, got, ref)
			failClass(c, cls, failCase{s.Name, s.Tmpl, texts, mask, src, refSrc}, "%s\n    folded:    %s\n    reference: %s with arguments %v", msg, src, refSrc, texts)
		}
	}
}

// Precisely classified defect candidates. The classes are decided from the
// case itself (operators of the template, operand values) plus the shape of
// the two outcomes:
//
// classAbsorb: the folder (ast.Folder.foldMul / commutative) replaces a whole
// * / & | and or chain by its absorbing constant (0, 0xffffffff for |, false,
// true) as soon as that constant occurs in it, so the remaining operands are
// never evaluated: a conversion / type exception (or a side effect) of an
// operand that run-time evaluation reaches is lost.
//
// classBit32: the folder uses 0xffffffff as the identity of & and the
// absorbing element of |, which is only right for 32 bit operands, while the
// run-time operators work on 64 bit integers.
//
// classReassoc: constants of + - * / chains are collected, i.e. the operations
// are re-associated; exact for integers that stay within int64, but with
// decimal operands, integer results that leave int64 (continuing in 16 digit
// decimal) or a division (divisors become a separately multiplied
// reciprocal) the results differ in the last digit (which can also turn an integral result into a non-integral one),
// or reach a division by zero with another sign.
//
// classDeadOperand: a constant subexpression that raises an error when
// evaluated is folded although run-time evaluation never reaches it (right
// operand of and/or after a deciding left operand): a program that runs is
// rejected at compile time.
const classAbsorb = "absorbing-constant-skips-operand-evaluation"
const classBit32 = "bitand-bitor-fold-assumes-32-bit-operands"
const classReassoc = "nary-arith-fold-reassociation-rounding"
const classDeadOperand = "error-in-unevaluated-constant-operand-rejects-program"

// classify computes the precise class of a failure ("" = unclassified)
func classify(s *shape, tuple []int, mask uint, got, ref outcome) string {
	has := func(ops ...string) bool {
		for _, op := range ops {
			if strings.Contains(s.Tmpl, " "+op+" ") {
				return true
			}
		}
		return false
	}
	// operand facts
	var ints []float64
	nonInt, big32 := false, false
	for i := 0; i < s.N; i++ {
		k := s.consts[tuple[i]]
		if k.Type != "Number" {
			continue
		}
		if n, ok := k.val.IfInt(); ok {
			ints = append(ints, math.Abs(float64(n)))
			if n < 0 || n >= 4294967295 {
				big32 = true
			}
		} else {
			nonInt = true
		}
	}
	if got.Kind == "compile" {
		if ref.Kind == "value" && has("and", "or") {
			return classDeadOperand
		}
		return ""
	}
	// absorbing constant present (as a constant, not as the parameter) and run time raises an exception
	if ref.Kind == "exception" {
		for i := 0; i < s.N; i++ {
			if mask&(1<<uint(i)) != 0 {
				continue
			}
			switch k := s.consts[tuple[i]]; {
			case k.Text == "0" && has("*", "/", "&"),
				(k.Text == "4294967295" || k.Text == "(-1)") && has("|"),
				k.Text == "false" && has("and"),
				k.Text == "true" && has("or"):
				return classAbsorb
			}
		}
	}
	// … or a folded intermediate equal to the absorbing element decided the result
	if ref.Kind == "exception" && got.Kind == "value" && got.val != nil {
		if got.val.Equal(Zero) && has("*", "/", "&") || (got.val.Equal(IntVal(4294967295)) || got.val.Equal(IntVal(-1))) && has("|") ||
			got.val == False && has("and") || got.val == True && has("or") {
			return classAbsorb
		}
	}
	bothValues := got.Kind == "value" && ref.Kind == "value"
	if bothValues && has("/") && got.Type == "Number" && ref.Type == "Number" && got.val != nil && ref.val != nil {
		// quotient differing in the last digits only: the reciprocal re-association, whatever else is in the expression
		g, r := ToDnum(got.val), ToDnum(ref.val)
		if !g.IsInf() && !r.IsInf() && !r.IsZero() && dnum.Compare(dnum.Div(dnum.Sub(g, r), r).Abs(), dnum.FromStr("1e-14")) < 0 {
			return classReassoc
		}
	}
	if has("&", "|") && big32 && (bothValues || got.Kind == "value" && ref.Text == "runtime error: negative shift amount") {
		return classBit32
	}
	if has("*", "/", "+", "-") {
		if has("/") && got.Kind == "exception" && got.Text == "can't convert number to integer" {
			return classReassoc // an integral quotient became non-integral through the reciprocal
		}
		prod, sum := 1.0, 0.0
		for _, x := range ints {
			if x != 0 {
				prod *= x
			}
			sum += x
		}
		overflows := prod > 9.2e18 || sum > 9.2e18 // integer arithmetic leaves int64: continues in 16 digit decimal
		if (nonInt || has("/") || overflows) && (bothValues || got.Kind == "exception" && got.Text == "can't convert number to integer" && ref.Kind == "value") {
			if got.Type == "Number" && ref.Type == "Number" && got.val != nil && ref.val != nil && bothValues {
				// top-level numeric results: require that they are close (or both infinite)
				g, r := ToDnum(got.val), ToDnum(ref.val)
				if g.IsInf() || r.IsInf() {
					if g.IsInf() && r.IsInf() && has("/") {
						return classReassoc
					}
					return ""
				}
				if r.IsZero() || dnum.Compare(dnum.Div(dnum.Sub(g, r), r).Abs(), dnum.FromStr("1e-14")) >= 0 {
					if has("+", "-") && (nonInt || overflows) {
						return classReassoc // cancellation: (a + p) - a with |a| >> |p|
					}
					return ""
				}
			}
			return classReassoc
		}
	}
	return ""
}

type stats struct {
	evals      int
	static     int
	order      int
	valueAgree int
	refKinds   map[string]int
}

// ---------------------------------------------------------------- run

func run(c *lib.Ctx) {
	initConsts()
	shs := shapes(c)
	c.Set("shapes", len(shs))
	c.Set("constants", []int{len(allConsts), len(midConsts), len(fewConsts)})
	var mu sync.Mutex
	total := stats{refKinds: map[string]int{}}
	c.Par(len(shs), func(si int) {
		s := &shs[si]
		w := &worker{th: &Thread{}}
		st := stats{refKinds: map[string]int{}}
		all := uint(1)<<uint(s.N) - 1
		refSrc := s.fill(make([]int, s.N), all)
		refFn, co := w.compile(refSrc)
		if co != nil {
			c.Fail("", failCase{Shape: s.Name, Tmpl: s.Tmpl, RefSrc: refSrc}, "reference program (all parameters) does not compile: %s: %s", refSrc, co.Text)
			return
		}
		k := len(s.consts)
		n := 1
		for i := 0; i < s.N; i++ {
			n *= k
		}
		tuple := make([]int, s.N)
		for idx := 0; idx < n; idx++ {
			x := idx
			for i := s.N - 1; i >= 0; i-- {
				tuple[i] = x % k
				x /= k
			}
			w.checkTuple(c, s, refFn, refSrc, tuple, &st)
			if idx%512 == 0 && c.Expired() {
				break
			}
		}
		c.Eval(st.evals)
		c.Nontrivial(st.evals)
		mu.Lock()
		total.static += st.static
		total.order += st.order
		total.valueAgree += st.valueAgree
		for k, v := range st.refKinds {
			total.refKinds[k] += v
		}
		mu.Unlock()
		if si%37 == 0 {
			tu := make([]int, s.N)
			for i := range tu {
				tu[i] = (si + 3*i) % k
			}
			c.Sample(map[string]string{"shape": s.Name, "folded": s.fill(tu, 0), "reference": refSrc})
		}
	})
	c.Set("reference_outcomes", total.refKinds)
	c.Set("accepted_static_rejections", total.static)
	c.Set("accepted_both_fail_compile_time_error_first", total.order)
	c.Set("all_constant_cases_where_both_return_values", total.valueAgree)
}

func replay(c *lib.Ctx, raw json.RawMessage) {
	var fc failCase
	if err := json.Unmarshal(raw, &fc); err != nil {
		lib.Infra("bad case: %v", err)
	}
	initConsts()
	// rebuild the shape from the recorded template and constants
	var cs []konst
	for _, t := range fc.Consts {
		cs = append(cs, mkConsts(strings.TrimSuffix(strings.TrimPrefix(t, "("), ")"))...)
	}
	s := &shape{Name: fc.Shape, Tmpl: fc.Tmpl, N: len(cs), consts: cs, Cond: -1}
	tuple := make([]int, s.N)
	for i := range tuple {
		tuple[i] = i
	}
	w := &worker{th: &Thread{}}
	all := uint(1)<<uint(s.N) - 1
	refSrc := s.fill(tuple, all)
	refFn, co := w.compile(refSrc)
	if co != nil {
		c.Fail("", fc, "reference does not compile: %s", co.Text)
		return
	}
	st := stats{refKinds: map[string]int{}}
	w.checkTuple(c, s, refFn, refSrc, tuple, &st)
}

func main() {
	lib.Main(lib.Spec{
		ID:    "C30",
		Level: "exploration",
		Rule: "every expression / propagation shape x every tuple of constants of the shape's alphabet, in the variants all-constants and one-leaf-as-parameter, " +
			"each compiled and run on the real interpreter and compared with the all-parameters variant (nothing folded) called with the same values; " +
			"evaluations = folded variants judged, each distinct by construction (shape, tuple, variant)",
		Assumptions: []string{
			"the all-parameters program evaluated by the real interpreter is the run-time meaning (the oracle is differential: the property itself is stated as folded vs run-time evaluation)",
			"an exception may move from run time to compile time; its text must be the same after removing the compiler's position prefix",
			"the folder's static diagnostics (cannot do math on T literal, ?:/if requires boolean) are accepted as rejections when a literal of that type is present in the case",
			"default options (StrictCompare off)",
		},
		QuickBudget:    120,
		ThoroughBudget: 900,
		Run:            run,
		Replay:         replay,
	})
}
