// C38 String helpers match their reference semantics.
//
// Enumerated (bounded-exhaustive):
//
//	tr      tr.Replace(src, tr.New(from), tr.New(to)) for ALL from/to set
//	        specifications of length <= 3 (thorough: one of them <= 4) over
//	        {a,b,c,z,-,^} (ranges, reversed ranges, negation, literal - and ^,
//	        deletion with empty to, truncating to with collapse) and ALL
//	        subjects of length <= 3 (thorough 4) over the same bytes; plus a
//	        high-byte family over {00,fe,ff,-,^}.
//	str     ToLower/ToUpper/CmpLower/EqualCI/Capitalize.../CommonPrefix/
//	        HasPrefix/Before|After First|Last/Cut/Split/Join/Subi/Subn/Opt/
//	        Find1of/FindLast1of/Doesc over ALL strings of length <= 3 on
//	        {A,a,Z,z,@,[,`,{,ff,00} (the bytes around the A-Z / a-z range
//	        ends) - all ordered pairs for the binary ones.
//	ascii   every function for all 256 bytes (Digit: radix 2, 8, 10, 16).
//
// Oracle: small reference implementations written here from the documented
// definitions (suneidoc string.Tr / Find1of / Unescape, doc comments), using
// plain loops, bytes.Compare and the strings package on the inputs as written.
package main

import (
	"bytes"
	"encoding/hex"
	"encoding/json"
	"fmt"
	"strings"
	"sync"

	"github.com/apmckinlay/gsuneido/util/ascii"
	"github.com/apmckinlay/gsuneido/util/str"
	"github.com/apmckinlay/gsuneido/util/tr"

	"verif/lib"
)

// ---------------------------------------------------------------- tr reference

// expandSet expands x-y ranges scanning left to right; a '-' that is first,
// last, or directly after a range is literal; a reversed range is empty.
func expandSet(s string) []byte {
	var out []byte
	for i := 0; i < len(s); {
		if i+2 < len(s) && s[i+1] == '-' {
			for c := int(s[i]); c <= int(s[i+2]); c++ {
				out = append(out, byte(c))
			}
			i += 3
		} else {
			out = append(out, s[i])
			i++
		}
	}
	return out
}

// refTr is string.Tr by its documentation: characters of from are replaced by
// the corresponding characters of to; a leading ^ complements from; empty to
// deletes; a shorter to is padded with its last character, and that character
// is never put more than once in a row in the output.
func refTr(src, fromSpec, toSpec string) string {
	if src == "" || fromSpec == "" {
		return src
	}
	allbut := fromSpec[0] == '^'
	if allbut {
		fromSpec = fromSpec[1:]
	}
	from := expandSet(fromSpec)
	// the set syntax is the same for both arguments: a leading ^ is never the
	// start of a range; in to it has no meaning and stays a literal character
	to := refTo(toSpec)
	return refTrSets(src, allbut, from, to)
}

// refTrSets: translation with already expanded sets
func refTrSets(src string, allbut bool, from, to []byte) string {
	last := len(to) - 1
	collapse := len(to) > 0 && (allbut || len(to) < len(from))
	var out []byte
	inRun := false // the previous output was the (collapsing) last character of to
	for i := 0; i < len(src); i++ {
		c := src[i]
		idx := bytes.IndexByte(from, c)
		selected := idx >= 0
		if allbut {
			selected = idx < 0
			idx = last + 1 // everything selected maps to the padding
		}
		switch {
		case !selected:
			out = append(out, c)
			inRun = false
		case len(to) == 0:
			// deleted
		case collapse && idx >= last:
			if !inRun {
				out = append(out, to[last])
			}
			inRun = true
		default:
			out = append(out, to[idx])
			inRun = false
		}
	}
	return string(out)
}

func refTo(toSpec string) []byte {
	if toSpec != "" && toSpec[0] == '^' {
		return append([]byte{'^'}, expandSet(toSpec[1:])...)
	}
	return expandSet(toSpec)
}

// ---------------------------------------------------------------- enumeration helpers

// strs returns all byte strings over alpha of length 0..maxlen, shortest first.
func strs(alpha string, maxlen int) []string {
	out := []string{""}
	prev := []string{""}
	for l := 1; l <= maxlen; l++ {
		var cur []string
		for _, s := range prev {
			for i := 0; i < len(alpha); i++ {
				cur = append(cur, s+alpha[i:i+1])
			}
		}
		out = append(out, cur...)
		prev = cur
	}
	return out
}

type kase struct {
	Kind string   `json:"kind"` // tr | str1 | str2 | ascii | join
	Fn   string   `json:"fn,omitempty"`
	Args []string `json:"args"` // hex
}

func hx(ss ...string) []string {
	out := make([]string, len(ss))
	for i, s := range ss {
		out[i] = hex.EncodeToString([]byte(s))
	}
	return out
}

func unhx(ss []string) []string {
	out := make([]string, len(ss))
	for i, s := range ss {
		b, err := hex.DecodeString(s)
		if err != nil {
			lib.Infra("bad hex: %v", err)
		}
		out[i] = string(b)
	}
	return out
}

// ---------------------------------------------------------------- tr check

func checkTr(c *lib.Ctx, src, from, to string) bool {
	want := refTr(src, from, to)
	var got string
	if e := lib.Try(func() { got = tr.Replace(src, tr.New(from), tr.New(to)) }); e != nil {
		c.Fail("", kase{Kind: "tr", Args: hx(src, from, to)}, "%q.Tr(%q, %q) panicked: %s", src, from, to, lib.PanicText(e))
		return false
	}
	if got != want {
		class := ""
		if ex := expandSet(from); from[0] != '^' && len(ex) > 0 && ex[0] == '^' && got == refTrSets(src, true, ex[1:], refTo(to)) {
			// precisely: from does not begin with ^, but it begins with reversed
			// (empty) ranges followed by a literal ^, so that its expansion
			// begins with ^ - which Replace then takes as the negation marker
			class = "tr-expanded-from-starts-with-caret"
		}
		failc(c, class, kase{Kind: "tr", Args: hx(src, from, to)}, "%q.Tr(%q, %q) = %q, reference gives %q", src, from, to, got, want)
		return false
	}
	return got != src
}

func runTr(c *lib.Ctx, name, alpha string, nfrom, nto, nsrc int) {
	froms, tos, srcs := strs(alpha, nfrom), strs(alpha, nto), strs(alpha, nsrc)
	c.Par(len(froms), func(i int) {
		changed := 0
		for _, to := range tos {
			for _, src := range srcs {
				if checkTr(c, src, froms[i], to) {
					changed++
				}
			}
			if c.Stopped() {
				return
			}
		}
		c.Eval(len(tos) * len(srcs))
		c.Nontrivial(changed) // cases where the subject is actually changed
		c.Count("tr_"+name+"_cases", len(tos)*len(srcs))
		c.Count("tr_"+name+"_subject_changed", changed)
	})
}

// ---------------------------------------------------------------- str reference + checks

func refLower(s string) string {
	b := []byte(s)
	for i, c := range b {
		if 'A' <= c && c <= 'Z' {
			b[i] = c + ('a' - 'A')
		}
	}
	return string(b)
}

func refUpper(s string) string {
	b := []byte(s)
	for i, c := range b {
		if 'a' <= c && c <= 'z' {
			b[i] = c - ('a' - 'A')
		}
	}
	return string(b)
}

func refCommonPrefixLen(s, t string) int {
	n := 0
	for n < len(s) && n < len(t) && s[n] == t[n] {
		n++
	}
	return n
}

// first / last occurrence of sub in s by naive search (-1 if none); the empty
// string occurs at every position
func refIndex(s, sub string) int {
	for i := 0; i+len(sub) <= len(s); i++ {
		if s[i:i+len(sub)] == sub {
			return i
		}
	}
	return -1
}

func refLastIndex(s, sub string) int {
	for i := len(s) - len(sub); i >= 0; i-- {
		if s[i:i+len(sub)] == sub {
			return i
		}
	}
	return -1
}

func refSplit(s, sep string) []string {
	if s == "" {
		return nil // documented: Split returns nil for ""
	}
	var out []string
	for {
		i := refIndex(s, sep)
		if i < 0 {
			return append(out, s)
		}
		out = append(out, s[:i])
		s = s[i+len(sep):]
	}
}

// refSetContains: Find1of character sets as documented (string.Find1of):
// leading ^ negates, x-y ranges, literal - first or last. ok is false when the
// specification has a '-' that is neither first, last nor part of a range
// (not specified by the documentation).
func refSet(chars string) (set [256]bool, ok bool) {
	neg := false
	if len(chars) > 0 && chars[0] == '^' {
		neg = true
		chars = chars[1:]
	}
	ok = true
	for i := 0; i < len(chars); {
		if i+2 < len(chars) && chars[i+1] == '-' {
			for c := int(chars[i]); c <= int(chars[i+2]); c++ {
				set[c] = true
			}
			i += 3
			continue
		}
		if chars[i] == '-' && i > 0 && i < len(chars)-1 {
			ok = false
		}
		set[chars[i]] = true
		i++
	}
	if neg {
		for i := range set {
			set[i] = !set[i]
		}
	}
	return set, ok
}

// refDoesc: escape sequences as documented for string.Unescape and as the
// lexer interprets them: \n \t \r \\ \" \' and \xhh (two hex digits);
// anything else is a literal backslash. Returns the byte and the index of the
// last byte consumed.
func refDoesc(s string, i int) (byte, int) {
	if s[i] != '\\' || i+1 >= len(s) {
		return s[i], i
	}
	hexv := func(c byte) int {
		switch {
		case '0' <= c && c <= '9':
			return int(c - '0')
		case 'a' <= c && c <= 'f':
			return int(c-'a') + 10
		case 'A' <= c && c <= 'F':
			return int(c-'A') + 10
		}
		return -1
	}
	switch s[i+1] {
	case 'n':
		return '\n', i + 1
	case 't':
		return '\t', i + 1
	case 'r':
		return '\r', i + 1
	case '\\', '"', '\'':
		return s[i+1], i + 1
	case 'x':
		if i+3 < len(s) && hexv(s[i+2]) >= 0 && hexv(s[i+3]) >= 0 {
			return byte(16*hexv(s[i+2]) + hexv(s[i+3])), i + 3
		}
	}
	return '\\', i
}

type failer func(class, fn string, args []string, format string, a ...any)

func mkFail(c *lib.Ctx, kind string) failer {
	return func(class, fn string, args []string, format string, a ...any) {
		qa := make([]string, len(args))
		for i, s := range args {
			qa[i] = fmt.Sprintf("%q", s)
		}
		failc(c, class, kase{Kind: kind, Fn: fn, Args: hx(args...)}, "str.%s(%s): %s", fn, strings.Join(qa, ", "), fmt.Sprintf(format, a...))
	}
}

// check1: unary helpers. Returns the number of assertions.
func check1(c *lib.Ctx, s string) int {
	fail := mkFail(c, "str1")
	n := 0
	eqs := func(fn, got, want string) {
		n++
		if got != want {
			fail("", fn, []string{s}, "= %q want %q", got, want)
		}
	}
	eqs("ToLower", str.ToLower(s), refLower(s))
	eqs("ToUpper", str.ToUpper(s), refUpper(s))
	capd := len(s) > 0 && 'A' <= s[0] && s[0] <= 'Z'
	n++
	if str.Capitalized(s) != capd {
		fail("", "Capitalized", []string{s}, "= %v", !capd)
	}
	w := s
	if len(s) > 0 {
		w = refUpper(s[:1]) + s[1:]
	}
	eqs("Capitalize", str.Capitalize(s), w)
	w = s
	if len(s) > 0 {
		w = refLower(s[:1]) + s[1:]
	}
	eqs("UnCapitalize", str.UnCapitalize(s), w)
	// IndexFunc with a predicate: first upper case byte
	wi := -1
	for i := 0; i < len(s); i++ {
		if 'A' <= s[i] && s[i] <= 'Z' {
			wi = i
			break
		}
	}
	n++
	if g := str.IndexFunc(s, ascii.IsUpper); g != wi {
		fail("", "IndexFunc", []string{s}, "= %d want %d", g, wi)
	}
	// Subi / Subn for all 0 <= i <= j <= len+2
	for i := 0; i <= len(s)+2; i++ {
		for j := i; j <= len(s)+2; j++ {
			want := s[min(i, len(s)):min(j, len(s))]
			n += 2
			if g := str.Subi(s, i, j); g != want {
				fail("", "Subi", []string{s, fmt.Sprint(i), fmt.Sprint(j)}, "= %q want %q", g, want)
			}
			if g := str.Subn(s, i, j-i); g != want {
				fail("", "Subn", []string{s, fmt.Sprint(i), fmt.Sprint(j - i)}, "= %q want %q", g, want)
			}
		}
	}
	return n
}

// check2: binary helpers on an ordered pair
func check2(c *lib.Ctx, s, t string) int {
	fail := mkFail(c, "str2")
	n := 0
	args := []string{s, t}
	eqs := func(fn, got, want string) {
		n++
		if got != want {
			fail("", fn, args, "= %q want %q", got, want)
		}
	}
	eqi := func(fn string, got, want int) {
		n++
		if got != want {
			fail("", fn, args, "= %d want %d", got, want)
		}
	}
	eqb := func(fn string, got, want bool) {
		n++
		if got != want {
			fail("", fn, args, "= %v want %v", got, want)
		}
	}
	ls, lt := refLower(s), refLower(t)
	eqi("CmpLower", str.CmpLower(s, t), bytes.Compare([]byte(ls), []byte(lt)))
	eqb("EqualCI", str.EqualCI(s, t), ls == lt)
	cp := refCommonPrefixLen(s, t)
	eqi("CommonPrefixLen", str.CommonPrefixLen(s, t), cp)
	eqs("CommonPrefix", str.CommonPrefix(s, t), s[:cp])
	eqb("HasPrefix", str.HasPrefix(s, t), cp == len(t))
	eqb("HasPrefix(bytes)", str.HasPrefix([]byte(s), t), cp == len(t))
	// s around the first / last occurrence of t (all of s if not found)
	i := refIndex(s, t)
	bf, af := s, s
	if i >= 0 {
		bf, af = s[:i], s[i+len(t):]
	}
	eqs("BeforeFirst", str.BeforeFirst(s, t), bf)
	eqs("AfterFirst", str.AfterFirst(s, t), af)
	i = refLastIndex(s, t)
	bl, al := s, s
	if i >= 0 {
		bl, al = s[:i], s[i+len(t):]
	}
	eqs("BeforeLast", str.BeforeLast(s, t), bl)
	eqs("AfterLast", str.AfterLast(s, t), al)
	// Opt
	w := s + t
	if s == "" || t == "" {
		w = ""
	}
	eqs("Opt", str.Opt(s, t), w)
	// Cut on a byte separator
	if len(t) == 1 {
		b, a := s, ""
		if i := refIndex(s, t); i >= 0 {
			b, a = s[:i], s[i+1:]
		}
		gb, ga := str.Cut(s, t[0])
		n++
		if gb != b || ga != a {
			fail("", "Cut", args, "= (%q, %q) want (%q, %q)", gb, ga, b, a)
		}
	}
	// Split with separator t (non empty), and its inverse
	if t != "" {
		got, want := str.Split(s, t), refSplit(s, t)
		n++
		if (got == nil) != (want == nil) || !eqStrs(got, want) {
			fail("", "Split", args, "= %q want %q", got, want)
		}
		n++
		if s != "" && strings.Join(got, t) != s {
			fail("", "Split", args, "joining the parts gives %q", strings.Join(got, t))
		}
		if !strings.ContainsAny(t[:1], "({[") { // a leading bracket is Join's delimiter syntax
			n++
			if g := str.Join(t, got); g != s {
				fail("", "Join(sep, Split(s, sep))", args, "= %q", g)
			}
		}
	}
	// Find1of / FindLast1of with t as the character set
	if set, ok := refSet(t); ok {
		first, last := -1, -1
		if t != "" { // documented: nothing is found for an empty set
			for i := 0; i < len(s); i++ {
				if set[s[i]] {
					if first < 0 {
						first = i
					}
					last = i
				}
			}
		}
		eqi("Find1of", str.Find1of(s, t), first)
		eqi("FindLast1of", str.FindLast1of(s, t), last)
	}
	return n
}

func eqStrs(a, b []string) bool {
	if len(a) != len(b) {
		return false
	}
	for i := range a {
		if a[i] != b[i] {
			return false
		}
	}
	return true
}

// checkJoin: str.Join(format, list): optional bracket pair around, separator between
func checkJoin(c *lib.Ctx, format string, list []string) {
	pre, suf, sep := "", "", format
	if len(format) >= 2 && strings.ContainsAny(format[:1], "({[") {
		pre, suf, sep = format[:1], format[len(format)-1:], format[1:len(format)-1]
	}
	want := pre
	for i, s := range list {
		if i > 0 {
			want += sep
		}
		want += s
	}
	want += suf
	var got string
	e := lib.Try(func() { got = str.Join(format, list) })
	if e != nil || got != want {
		c.Fail("", kase{Kind: "join", Args: hx(append([]string{format}, list...)...)},
			"str.Join(%q, %q) = %q (panic %v) want %q", format, list, got, e, want)
	}
}

// checkDoesc: every position of s
func checkDoesc(c *lib.Ctx, s string) int {
	fail := mkFail(c, "doesc")
	for i := 0; i < len(s); i++ {
		wb, wi := refDoesc(s, i)
		var gb byte
		var gi int
		if e := lib.Try(func() { gb, gi = str.Doesc(s, i) }); e != nil {
			fail("", "Doesc", []string{s, fmt.Sprint(i)}, "panicked: %s", lib.PanicText(e))
			continue
		}
		if gb != wb || gi != wi {
			class := ""
			if wi == i+3 && gb == '\\' && gi == i {
				// precisely: a well formed \xhh is returned as a literal backslash
				class = "doesc-hex-escape-not-decoded"
			}
			fail(class, "Doesc", []string{s, fmt.Sprint(i)}, "= (%q, %d) want (%q, %d)", gb, gi, wb, wi)
		}
	}
	return len(s)
}

// ---------------------------------------------------------------- ascii

func checkAscii(c *lib.Ctx) int {
	n := 0
	for i := 0; i < 256; i++ {
		b := byte(i)
		fail := func(fn string, got, want any) {
			c.Fail("", kase{Kind: "ascii", Fn: fn, Args: hx(string([]byte{b}))}, "ascii.%s(%#02x) = %v want %v", fn, b, got, want)
		}
		ch := string(rune(b)) // Latin-1 view for the unicode-free references below
		_ = ch
		lower := strings.IndexByte("abcdefghijklmnopqrstuvwxyz", b) >= 0
		upper := strings.IndexByte("ABCDEFGHIJKLMNOPQRSTUVWXYZ", b) >= 0
		digit := strings.IndexByte("0123456789", b) >= 0
		hexd := strings.IndexByte("0123456789abcdefABCDEF", b) >= 0
		space := strings.IndexByte(" \t\r\n\v", b) >= 0
		chk := func(fn string, got, want bool) {
			n++
			if got != want {
				fail(fn, got, want)
			}
		}
		chk("IsLower", ascii.IsLower(b), lower)
		chk("IsUpper", ascii.IsUpper(b), upper)
		chk("IsLetter", ascii.IsLetter(b), lower || upper)
		chk("IsDigit", ascii.IsDigit(b), digit)
		chk("IsHexDigit", ascii.IsHexDigit(b), hexd)
		chk("IsSpace", ascii.IsSpace(b), space)
		wl, wu := b, b
		if upper {
			wl = "abcdefghijklmnopqrstuvwxyz"[strings.IndexByte("ABCDEFGHIJKLMNOPQRSTUVWXYZ", b)]
		}
		if lower {
			wu = "ABCDEFGHIJKLMNOPQRSTUVWXYZ"[strings.IndexByte("abcdefghijklmnopqrstuvwxyz", b)]
		}
		n += 2
		if g := ascii.ToLower(b); g != wl {
			fail("ToLower", g, wl)
		}
		if g := ascii.ToUpper(b); g != wu {
			fail("ToUpper", g, wu)
		}
		for _, radix := range []int{2, 8, 10, 16} {
			want := strings.IndexByte("0123456789abcdef", wl)
			if want >= radix {
				want = -1
			}
			n++
			if g := ascii.Digit(b, radix); g != want {
				fail(fmt.Sprintf("Digit radix %d", radix), g, want)
			}
		}
	}
	return n
}

// ---------------------------------------------------------------- driver

const trAlpha = "abcz-^"
const trHigh = "\x00\xfe\xff-^"
const strAlpha = "AaZz@[`{\xff\x00"

func run(c *lib.Ctx) {
	n := checkAscii(c)
	c.Eval(n)
	c.Nontrivial(n)
	c.Count("ascii_assertions", n)

	// str helpers: all strings <= 3 over strAlpha; unary on each, binary on all ordered pairs
	ss := strs(strAlpha, 3)
	seps := append(strs(strAlpha, 1), "Aa", "aA", "\x00\x00", "-", "a-z", "^a", "^A-Z", "A-Z", "Z-A", "a-", "-a", "^", "@-[", "`-{")
	c.Set("str_strings", len(ss))
	c.Par(len(ss), func(i int) {
		n := check1(c, ss[i])
		for _, t := range ss {
			n += check2(c, ss[i], t)
		}
		for _, t := range seps {
			n += check2(c, ss[i], t)
		}
		c.Eval(n)
		c.Nontrivial(len(ss) + len(seps))
		c.Count("str_assertions", n)
	})
	// Join with formats
	lists := [][]string{nil, {}, {""}, {"a"}, {"", ""}, {"a", "b"}, {"a", "", "c"}, {"(", ")"}, {"x", "y", "z", ""}}
	formats := []string{"", ",", ", ", "(,)", "{, }", "[]", "()", "[ ]", "ab", "(ab", "<,>"}
	for _, f := range formats {
		for _, l := range lists {
			checkJoin(c, f, l)
		}
	}
	c.Eval(len(formats) * len(lists))
	c.Nontrivial(len(formats) * len(lists))
	var cb str.CommaBuilder
	for _, s := range []string{"a", "", "b,c"} {
		cb.Add(s)
	}
	if cb.String() != "a,,b,c" {
		c.Fail("", kase{Kind: "commabuilder"}, "CommaBuilder gave %q", cb.String())
	}

	// tr
	if c.Quick() {
		runTr(c, "abcz", trAlpha, 3, 3, 3)
		runTr(c, "high", trHigh, 3, 2, 2)
	} else {
		runTr(c, "abcz", trAlpha, 3, 3, 4)
		runTr(c, "abcz-from4", trAlpha, 4, 3, 3)
		runTr(c, "abcz-to4", trAlpha, 3, 4, 3)
		runTr(c, "high", trHigh, 3, 3, 3)
	}
	// (last, because its classified known defect stops the run after 5 reports)
	// Doesc: all strings <= 4 (thorough 5) over the escape alphabet
	ds := strs("\\xnt4aG\"0", lib.Pick(c, 4, 5))
	dn := 0
	for _, s := range ds {
		dn += checkDoesc(c, s)
	}
	c.Eval(dn)
	c.Nontrivial(dn)
	c.Count("doesc_positions", dn)
	c.Sample(map[string]string{"call": `"abcz".Tr("a-c", "xy")`, "result": tr.Replace("abcz", tr.New("a-c"), tr.New("xy")), "reference": refTr("abcz", "a-c", "xy")})
	c.Sample(map[string]string{"call": `"a-^z".Tr("^a-b", "-")`, "result": tr.Replace("a-^z", tr.New("^a-b"), tr.New("-")), "reference": refTr("a-^z", "^a-b", "-")})
	c.Sample(map[string]string{"call": `CmpLower("Z", "a")`, "result": fmt.Sprint(str.CmpLower("Z", "a"))})
}

func replay(c *lib.Ctx, raw json.RawMessage) {
	var k kase
	if err := json.Unmarshal(raw, &k); err != nil {
		lib.Infra("bad case: %v", err)
	}
	a := unhx(k.Args)
	switch k.Kind {
	case "tr":
		checkTr(c, a[0], a[1], a[2])
	case "str1":
		check1(c, a[0])
	case "str2":
		check2(c, a[0], a[1])
	case "doesc":
		checkDoesc(c, a[0])
	case "join":
		checkJoin(c, a[0], a[1:])
	case "ascii":
		checkAscii(c)
	default:
		lib.Infra("unknown kind %q", k.Kind)
	}
}

func main() {
	lib.Main(lib.Spec{
		ID:    "C38",
		Level: "exploration",
		Rule: "tr: all (subject, from, to) triples with from/to set specifications of length <=3 (thorough: one <=4) and subjects of length <=3 (4) over {a,b,c,z,-,^}, plus a family over {00,fe,ff,-,^}; " +
			"str: unary helpers on all strings of length <=3 over {A,a,Z,z,@,[,`,{,ff,00}, binary helpers on all ordered pairs (second argument also as separator / character set); ascii: all 256 bytes; " +
			"evaluations = assertions judged; non-trivial = tr cases that change the subject + string pairs + Doesc positions, distinct by construction",
		Assumptions: []string{
			"reference implementations written from suneidoc string.Tr / Find1of / Unescape and the doc comments; Go strings/bytes packages trusted",
			"Find1of sets with a '-' that is neither first, last nor inside a range are skipped (not specified); Split with an empty separator, Subi/Subn with negative or reversed indexes and Join formats of one bracket are outside the enumerated domain",
			"ascii.Digit judged for radix 2, 8, 10, 16",
			"verdict is for the enumerated alphabets and lengths only",
		},
		QuickBudget: 100, ThoroughBudget: 900,
		Run: run, Replay: replay,
	})
}

// failc reports a failure. Failures that carry a precise class (candidates
// for KNOWN_FINDINGS) are counted per class in the evidence; while a class is
// not a listed known finding only its first case is reported as a violation,
// so that one run shows every class (lib stops after 5 violations).
var classMu sync.Mutex
var classReported = map[string]bool{}

func failc(c *lib.Ctx, class string, cs any, format string, a ...any) {
	if class == "" {
		c.Fail("", cs, format, a...)
		return
	}
	c.Count("classified_failures:"+class, 1)
	classMu.Lock()
	defer classMu.Unlock()
	if classReported[class] {
		return
	}
	if known := c.Fail(class, cs, format, a...); !known {
		classReported[class] = true
	}
}
