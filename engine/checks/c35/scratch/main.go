package main

import (
	"fmt"

	_ "github.com/apmckinlay/gsuneido/builtin"
	"github.com/apmckinlay/gsuneido/compile"
	"github.com/apmckinlay/gsuneido/core"
)

func main() {
	core.Global.TestDef("Rule_r1", compile.Constant(`function () { return .a $ "," $ .b }`))
	th := &core.Thread{}
	src := `
	r = Record()
	r.a = "1"
	r.b = "1"
	x = Object()
	x.Add(r.r1)
	r.a = "2"
	r.Set_readonly()
	x.Add(r.r1)
	x.Add(r.r1)
	x.Add(r.r1)
	return x
	`
	fmt.Println(compile.EvalString(th, src))
	src = `
	r = Record()
	r.a = "1"
	r.b = "1"
	x = Object()
	x.Add(r.r1)
	r.a = "2"
	r.Set_readonly()
	try r.r1 = "9" catch (e) x.Add(e)
	x.Add(r.r1)
	x.Add(r.r1)
	return x
	`
	fmt.Println(compile.EvalString(th, src))
}
