// C35 Record rules always reflect current field values.
//
// Explicit-state BFS over operation sequences on real core.SuRecord objects,
// driven through compiled Suneido code (so the interpreter's member get/put
// opcodes and the builtin record methods are on the path).
//
// System: a record with plain fields a, b, c and three pure rules
//
//	Rule_r1 (global definition)  r1 = .a $ "," $ .b
//	Rule_r2 (global definition)  r2 = .r1 $ "!"              (chain through r1)
//	r3      (AttachRule)         r3 = .a is "1" ? .r1 : .c   (conditional, mixed)
//
// and one observer that logs every notification (in "active" mode it also reads
// this[member], as the documentation example does, and logs what it saw).
//
// Roots: {new empty record, record read from a database row that stores r1 and
// r1_deps} x {passive observer, active observer}.
//
// Events (one transition each): set a|b|c to "1"|"2", read a|r1|r2|r3, delete
// a|b|r1, assign the rule field r1 directly (user override), Invalidate r1|r3,
// SetDeps(r2,"c"), Set_readonly (afterwards only reads, assignments and deletes
// - which must be refused - and Copy are offered), Copy (continue on the copy /
// continue on the original; the other record is kept and probed at the end;
// the copy gets r3 re-attached and its own observer because documented Copy
// copies neither).
//
// Successor of a state = replay its event path on a fresh record + one event
// (records are mutable); states are deduplicated on the reference model state.
//
// Oracle (independent): `sem`, a from-scratch evaluation of the rule functions
// over the record's current plain field values with NO caching and NO dependency
// tracking. Every value returned by the implementation - by a read event, by
// the active observer, and by the probe that reads every field of every record
// (and of a fresh Copy of it) at the end of every path - must equal sem.
// A directly assigned rule field keeps the assigned value until it is
// invalidated (Rules.md: rules run for fields the record does not contain; a
// changed dependency invalidates the field).
// Observers: a change must produce a notification for the changed member and
// for every rule field that held a value and was invalidated by the change;
// it may additionally report rule fields with a tracked dependency path from
// the changed member that hold no value or are already invalid (the property
// does not say); nothing else, nothing twice, and nothing for an assignment of
// an equal value.
// The bookkeeping of which fields currently hold a value / are invalid / which
// dependencies have been tracked is a plain-Go restatement of the documented
// algorithm (Rules.md) in `model`.
//
// Candidate defect found by this check (class classROStale, see below): on a
// read-only record a rule field whose stored value had been invalidated is
// evaluated correctly once and afterwards the stale stored value is returned.
// Paths that touch such a state are reported under that class, after the
// search, and are not explored further.
package main

import (
	"encoding/json"
	"fmt"
	"runtime/debug"
	"sort"
	"strings"
	"sync"

	_ "github.com/apmckinlay/gsuneido/builtin"
	"github.com/apmckinlay/gsuneido/compile"
	"github.com/apmckinlay/gsuneido/core"

	"verif/lib"
)

// ---------------------------------------------------------------- reference model

var plainFields = []string{"a", "b", "c"}
var ruleFields = []string{"r1", "r2", "r3"}
var allFields = []string{"a", "b", "c", "r1", "r2", "r3"}

// rule functions in plain Go; get returns the value of another field
var rules = map[string]func(get func(string) string) string{
	"r1": func(get func(string) string) string { return get("a") + "," + get("b") },
	"r2": func(get func(string) string) string { return get("r1") + "!" },
	"r3": func(get func(string) string) string {
		if get("a") == "1" {
			return get("r1")
		}
		return get("c")
	},
}

// mrec is the model of one record.
type mrec struct {
	vals     map[string]string   // members the record contains
	invalid  map[string]bool     // rule fields marked for recalculation
	deps     map[string][]string // field -> rule fields that used it (tracked or SetDeps)
	override map[string]bool     // rule field holds a directly assigned value
	active   []string            // rules being evaluated (dependency tracking)
	notes    []string            // notifications produced by the current event
	activeOb bool                // observer reads this[member]
	required map[string]bool     // notifications the current event must produce
	allowed  map[string]bool     // notifications the current event may produce
	readonly bool                // Set_readonly was applied: rules still work, results are not saved
}

func newMrec(activeOb bool) *mrec {
	return &mrec{vals: map[string]string{}, invalid: map[string]bool{},
		deps: map[string][]string{}, override: map[string]bool{}, activeOb: activeOb}
}

// clone models record.Copy: members, invalid marks and dependencies are
// copied; the copy is modifiable even if the original is read-only.
func (m *mrec) clone() *mrec {
	c := newMrec(m.activeOb)
	for k, v := range m.vals {
		c.vals[k] = v
	}
	for k, v := range m.invalid {
		c.invalid[k] = v
	}
	for k, v := range m.deps {
		c.deps[k] = append([]string(nil), v...)
	}
	for k, v := range m.override {
		c.override[k] = v
	}
	return c
}

func has(list []string, s string) bool {
	for _, x := range list {
		if x == s {
			return true
		}
	}
	return false
}

// sem is the independent oracle: the value field f must have, computed from
// scratch from the current plain values (and directly assigned rule values).
func (m *mrec) sem(f string) string {
	rule := rules[f]
	if rule == nil || m.override[f] {
		return m.vals[f] // "" when absent (record default)
	}
	return rule(m.sem)
}

// get is the documented algorithm: a contained, valid member is returned as is;
// otherwise the rule runs, its reads are tracked as dependencies, and the
// result is stored.
func (m *mrec) get(f string) string {
	if n := len(m.active); n > 0 && m.active[n-1] != f {
		if !has(m.deps[f], m.active[n-1]) {
			m.deps[f] = append(m.deps[f], m.active[n-1])
		}
	}
	v, ok := m.vals[f]
	if !ok || m.invalid[f] {
		if rule := rules[f]; rule != nil && !has(m.active, f) {
			m.active = append(m.active, f)
			v = rule(m.get)
			m.active = m.active[:len(m.active)-1]
			if m.readonly {
				// object.Set_readonly: "rules will still work, but their results
				// can not be saved so they will be evaluated every time"
				return v
			}
			m.vals[f] = v
			delete(m.override, f)
		}
		delete(m.invalid, f)
	}
	return v
}

// staleCached reports whether a read-only record holds a rule value that is
// marked invalid (the stale value can never be replaced).
func (m *mrec) staleCached() bool {
	if !m.readonly {
		return false
	}
	for _, f := range ruleFields {
		if _, ok := m.vals[f]; ok && m.invalid[f] {
			return true
		}
	}
	return false
}

func (m *mrec) invalidate(f string) {
	if m.invalid[f] {
		return
	}
	m.invalid[f] = true
	delete(m.override, f)
	m.notes = append(m.notes, f)
	m.invalidateDependents(f)
}

func (m *mrec) invalidateDependents(f string) {
	for _, d := range m.deps[f] {
		m.invalidate(d)
	}
}

// notify finishes a change of member key. m.notes becomes: key first, then
// every field the change newly marked invalid. m.required / m.allowed bound
// what the observer may be told:
//   - required: key and every newly invalidated rule field that held a value
//     ("changing a field that a rule used ... observers are notified of each
//     such invalidation");
//   - allowed: key and every rule field with a tracked dependency path from
//     key (a field that holds no value or is already invalid may or may not be
//     reported again - the property does not say).
func (m *mrec) notify(key string, had map[string]bool) {
	notes := []string{key}
	m.required = map[string]bool{key: true}
	for _, n := range m.notes {
		if n != key {
			notes = append(notes, n)
			if had[n] {
				m.required[n] = true
			}
		}
	}
	m.notes = notes
	m.allowed = map[string]bool{key: true}
	var walk func(f string)
	walk = func(f string) {
		for _, d := range m.deps[f] {
			if !m.allowed[d] {
				m.allowed[d] = true
				walk(d)
			}
		}
	}
	walk(key)
}

func (m *mrec) hadValues() map[string]bool {
	had := map[string]bool{}
	for f := range m.vals {
		if !m.invalid[f] {
			had[f] = true
		}
	}
	return had
}

func (m *mrec) set(f, v string) {
	had := m.hadValues()
	delete(m.invalid, f)
	old, ok := m.vals[f]
	m.vals[f] = v
	if rules[f] != nil {
		m.override[f] = true
	}
	if ok && old == v {
		return
	}
	m.invalidateDependents(f)
	m.notify(f, had)
}

func (m *mrec) del(f string) {
	if _, ok := m.vals[f]; !ok {
		return
	}
	had := m.hadValues()
	delete(m.vals, f)
	delete(m.override, f)
	m.invalidateDependents(f)
	m.notify(f, had)
}

func (m *mrec) userInvalidate(f string) {
	had := m.hadValues()
	m.invalidate(f)
	m.notify(f, had)
}

func (m *mrec) setDeps(f string, on string) {
	if !has(m.deps[on], f) {
		m.deps[on] = append(m.deps[on], f)
	}
}

func (m *mrec) key(sb *strings.Builder) {
	for _, f := range allFields {
		if v, ok := m.vals[f]; ok {
			fmt.Fprintf(sb, "%s=%s", f, v)
		}
		if m.invalid[f] {
			sb.WriteByte('!')
		}
		if m.override[f] {
			sb.WriteByte('o')
		}
		d := append([]string(nil), m.deps[f]...)
		sort.Strings(d)
		fmt.Fprintf(sb, "<%s;", strings.Join(d, ""))
	}
	if m.readonly {
		sb.WriteString("RO")
	}
}

// model is the whole system: the original record, an optional copy, and which
// one the following events are applied to.
type model struct {
	rec, cp *mrec
	onCopy  bool
	// tainted: some event or read was applied to a read-only record that holds
	// an invalidated cached rule value (see classROStale). From there on the
	// implementation's bookkeeping knowingly differs from the documented one,
	// so every later mismatch on this path is attributed to that class.
	tainted bool
}

func (m *model) cur() *mrec {
	if m.onCopy {
		return m.cp
	}
	return m.rec
}

func (m *model) key() string {
	var sb strings.Builder
	m.rec.key(&sb)
	if m.cp != nil {
		sb.WriteString("|")
		m.cp.key(&sb)
		if m.onCopy {
			sb.WriteString("|C")
		}
	}
	if m.tainted {
		sb.WriteString("|T")
	}
	return sb.String()
}

// ---------------------------------------------------------------- events

type event struct {
	name string
	src  string // Suneido function(r) executed on the real record
	fn   core.Value
	// 's' set, 'g' get, 'd' delete, 'i' invalidate, 'p' setdeps, 'o' Set_readonly,
	// 'c' copy-continue-on-copy, 'k' copy-keep-original
	kind byte
	f, v string
}

var events []event
var probeEvents []event // used by the probe only: set every plain field to a new value

func defEvents() {
	add := func(kind byte, f, v, src string) {
		events = append(events, event{name: src, src: src, kind: kind, f: f, v: v})
	}
	for _, f := range plainFields {
		for _, v := range []string{"1", "2"} {
			add('s', f, v, fmt.Sprintf(`r.%s = "%s"`, f, v))
		}
	}
	for _, f := range []string{"a", "r1", "r2", "r3"} {
		add('g', f, "", "return r."+f)
	}
	for _, f := range []string{"a", "b", "r1"} {
		add('d', f, "", "r.Delete(#"+f+")")
	}
	add('s', "r1", "9", `r.r1 = "9"`)
	add('s', "r1", "1,1", `r.r1 = "1,1"`) // may equal the cached value: no change
	add('i', "r1", "", "r.Invalidate(#r1)")
	add('i', "r3", "", "r.Invalidate(#r3)")
	add('p', "r2", "c", `r.SetDeps("r2", "c")`)
	add('c', "", "", "return r.Copy()")
	add('k', "", "", "return r.Copy()")
	add('o', "", "", "r.Set_readonly()")
	for _, f := range plainFields {
		src := fmt.Sprintf(`r.%s = "7"`, f)
		probeEvents = append(probeEvents, event{name: src, src: src, kind: 's', f: f, v: "7",
			fn: compile.Constant("function (r) { " + src + " }")})
	}
	for i := range events {
		events[i].fn = compile.Constant("function (r) { " + events[i].src + " }")
		switch events[i].kind {
		case 'c':
			events[i].name = "Copy, continue on the copy"
		case 'k':
			events[i].name = "Copy, continue on the original"
		}
	}
}

// applicable decides from the path alone whether event e is offered in the
// state reached by path: one Copy per path; on a read-only record only reads,
// (refused) assignments and deletes, and Copy are offered.
func applicable(path []int, e int) bool {
	hasCopy, onCopy := false, false
	var ro [2]bool // original, copy
	for _, p := range path {
		switch events[p].kind {
		case 'c':
			hasCopy, onCopy = true, true
		case 'k':
			hasCopy = true
		case 'o':
			if onCopy {
				ro[1] = true
			} else {
				ro[0] = true
			}
		}
	}
	curRO := ro[0]
	if onCopy {
		curRO = ro[1]
	}
	switch events[e].kind {
	case 'c', 'k':
		return !hasCopy
	case 'i', 'p', 'o':
		return !curRO
	}
	return true
}

var ruleR3 core.Value
var observerPS core.ParamSpec
var setupOnce sync.Once

func setup() {
	setupOnce.Do(func() {
		core.Global.TestDef("Rule_r1", compile.Constant(`function () { return .a $ "," $ .b }`))
		core.Global.TestDef("Rule_r2", compile.Constant(`function () { return .r1 $ "!" }`))
		ruleR3 = compile.Constant(`function () { return .a is "1" ? .r1 : .c }`)
		observerPS = compile.Constant("function (member) { }").(*core.SuFunc).ParamSpec
		defEvents()
	})
}

// ---------------------------------------------------------------- implementation side

type obsLog struct {
	notes []string // members notified during the current event
	seen  []string // member=value read by the active observer
}

type impl struct {
	th       *core.Thread
	rec, cp  *core.SuRecord
	recLog   *obsLog
	cpLog    *obsLog
	onCopy   bool
	activeOb bool
}

func (x *impl) cur() (*core.SuRecord, *obsLog) {
	if x.onCopy {
		return x.cp, x.cpLog
	}
	return x.rec, x.recLog
}

func valStr(v core.Value) string {
	if v == nil {
		return "<nil>"
	}
	if s, ok := v.ToStr(); ok {
		return s
	}
	return "<" + v.String() + ">"
}

func (x *impl) attach(r *core.SuRecord) *obsLog {
	lg := &obsLog{}
	active := x.activeOb
	ob := &core.SuBuiltinMethod{
		Fn: func(th *core.Thread, this core.Value, args []core.Value) core.Value {
			m := valStr(args[0])
			lg.notes = append(lg.notes, m)
			if active {
				lg.seen = append(lg.seen, m+"="+valStr(this.Get(th, args[0])))
			}
			return nil
		},
		BuiltinParams: core.BuiltinParams{ParamSpec: observerPS}}
	r.AttachRule(core.SuStr("r3"), ruleR3)
	r.Observer(ob)
	return lg
}

// root: 0 = new record, 1 = record from a database row with stored r1, r1_deps
func newImpl(th *core.Thread, root int, activeOb bool) (*impl, *model) {
	x := &impl{th: th, activeOb: activeOb}
	m := &model{rec: newMrec(activeOb)}
	if root == 0 {
		x.rec = core.NewSuRecord()
	} else {
		rb := core.RecordBuilder{}
		rb.Add(core.SuStr("1"))
		rb.Add(core.SuStr("1"))
		rb.Add(core.SuStr("1,1"))
		rb.Add(core.SuStr("a,b"))
		row := core.Row{core.DbRec{Record: rb.Build()}}
		cols := []string{"a", "b", "r1", "r1_deps"}
		hdr := core.NewHeader([][]string{cols}, cols)
		x.rec = core.SuRecordFromRow(row, hdr, "", nil)
		m.rec.vals = map[string]string{"a": "1", "b": "1", "r1": "1,1"}
		m.rec.deps = map[string][]string{"a": {"r1"}, "b": {"r1"}}
	}
	x.recLog = x.attach(x.rec)
	return x, m
}

type caseT struct {
	Iso      []int    `json:"copy_isolation,omitempty"` // n, i, j, order, setOn (see copyIsolation)
	Root     int      `json:"root"`
	ActiveOb bool     `json:"active_observer"`
	Path     []int    `json:"path"`
	Events   []string `json:"events"`
}

func mkCase(root int, activeOb bool, path []int) caseT {
	cs := caseT{Root: root, ActiveOb: activeOb, Path: append([]int(nil), path...)}
	for _, e := range path {
		cs.Events = append(cs.Events, events[e].name)
	}
	return cs
}

func sortedCopy(s []string) []string {
	c := append([]string(nil), s...)
	sort.Strings(c)
	return c
}

// failure is one oracle verdict. class is "" except for the precisely
// classified candidate defect below.
type failure struct {
	msg, class string
}

// classROStale: the record is read-only and holds a rule value that was
// invalidated before (or while) it became read-only; after the first read (or
// refused assignment) of that field the implementation hands out the stale
// stored value instead of evaluating the rule (Set_readonly documentation:
// "rules will still work ... evaluated every time they are referenced").
const classROStale = "readonly-record-invalid-cached-rule-value"

func fail(class, format string, a ...any) *failure {
	return &failure{msg: fmt.Sprintf(format, a...), class: class}
}

// step executes one event on the implementation and on the model and judges it.
func step(x *impl, m *model, ev *event) *failure {
	r, lg := x.cur()
	mr := m.cur()
	lg.notes, lg.seen = nil, nil
	mr.notes, mr.required, mr.allowed = nil, nil, nil
	if mr.staleCached() {
		m.tainted = true
	}
	var res core.Value
	e := lib.Try(func() { res = x.th.Call(ev.fn, r) })
	if e != nil {
		// a Go-level recover does not unwind the interpreter's frame stack
		x.th = &core.Thread{}
	}
	if mr.readonly && (ev.kind == 's' || ev.kind == 'd') {
		// read-only records reject every mutation and stay unchanged
		if e == nil || !strings.Contains(lib.PanicText(e), "readonly") {
			return fail("", "%s on a read-only record: expected a \"can't modify readonly objects\" exception, got %v", ev.name, e)
		}
	} else {
		if e != nil {
			return fail("", "event %q panicked: %s", ev.name, lib.PanicText(e))
		}
		switch ev.kind {
		case 's':
			mr.set(ev.f, ev.v)
		case 'g':
			want := mr.sem(ev.f)
			mv := mr.get(ev.f)
			if got := valStr(res); got != want {
				return fail("", "%s returned %q but the rule evaluated on the current field values gives %q (fields: %s)",
					ev.name, got, want, mr.plain())
			}
			if mv != want {
				return fail("", "model inconsistency at %s: algorithm %q, from scratch %q", ev.name, mv, want)
			}
		case 'd':
			mr.del(ev.f)
		case 'i':
			mr.userInvalidate(ev.f)
		case 'p':
			mr.setDeps(ev.f, ev.v)
		case 'o':
			mr.readonly = true
		case 'c', 'k':
			cp, ok := res.(*core.SuRecord)
			if !ok {
				return fail("", "Copy returned %T", res)
			}
			x.cp = cp
			x.cpLog = x.attach(cp)
			m.cp = mr.clone()
			if ev.kind == 'c' {
				x.onCopy, m.onCopy = true, true
			}
		}
	}
	// observers: every required notification, nothing outside the allowed
	// set, nothing twice
	mr = m.cur()
	if ev.kind == 'c' {
		mr = m.rec // the event ran on the original
	}
	got := map[string]bool{}
	for i, n := range lg.notes {
		if got[n] {
			return fail("", "%s: observer notified twice of %s (notifications: %v)", ev.name, n, lg.notes)
		}
		got[n] = true
		if !mr.allowed[n] {
			return fail("", "%s: observer notified of %s, which has no tracked dependency on the changed member (notifications: %v, changed/invalidated: %v)",
				ev.name, n, lg.notes, mr.notes)
		}
		if x.activeOb {
			// the observer read this[member] at that moment
			want := n + "=" + mr.sem(n)
			mr.get(n)
			if i >= len(lg.seen) || lg.seen[i] != want {
				return fail("", "%s: observer read %v but the current field values give %s", ev.name, lg.seen, want)
			}
		}
	}
	for _, n := range mr.notes {
		if mr.required[n] && !got[n] {
			return fail("", "%s: observer was not notified of %s (notifications: %v, changed/invalidated: %v)",
				ev.name, n, lg.notes, mr.notes)
		}
	}
	// the other record must not be notified by an event on this one
	if other := x.otherLog(); other != nil && len(other.notes) > 0 {
		return fail("", "%s: observer of the other record was notified of %v", ev.name, other.notes)
	}
	// A read-only record with an invalid cached rule value: read every rule
	// field twice right away. With the candidate defect the second read is
	// stale; the path is then reported under its class and not explored further
	// (the model would knowingly diverge). Otherwise exploration continues.
	mr = m.cur()
	if mr.staleCached() && ev.kind != 'c' && ev.kind != 'k' {
		m.tainted = true
		for round := 1; round <= 2; round++ {
			for _, f := range ruleFields {
				want := mr.sem(f)
				var got string
				if e := lib.Try(func() { got = valStr(r.Get(x.th, core.SuStr(f))) }); e != nil {
					return fail("", "read of %s panicked: %s", f, lib.PanicText(e))
				}
				mr.get(f)
				if got != want {
					return fail(classROStale, "after %s on a read-only record, read %d of %s returned %q but the rule evaluated on the current field values gives %q (fields: %s)",
						ev.name, round, f, got, want, mr.plain())
				}
			}
		}
	}
	return nil
}

func (x *impl) otherLog() *obsLog {
	if x.cp == nil {
		return nil
	}
	if x.onCopy {
		return x.recLog
	}
	return x.cpLog
}

func (m *mrec) plain() string {
	var sb strings.Builder
	for _, f := range allFields {
		if v, ok := m.vals[f]; ok && (rules[f] == nil || m.override[f]) {
			fmt.Fprintf(&sb, "%s=%q ", f, v)
		}
	}
	if m.readonly {
		sb.WriteString("read-only")
	}
	return strings.TrimSpace(sb.String())
}

// probe reads every field of a record, first through a fresh Copy (which must
// give the same values: Copy keeps values, invalid marks and dependencies) and
// then directly, in the given order; each value must equal sem.
func probe(x *impl, r *core.SuRecord, mr *mrec, which string, order []string) *failure {
	var f *failure
	class := ""
	if e := lib.Try(func() {
		cp := r.Copy().(*core.SuRecord)
		cp.AttachRule(core.SuStr("r3"), ruleR3)
		for _, fld := range order {
			want := mr.sem(fld)
			if got := valStr(cp.Get(x.th, core.SuStr(fld))); got != want && f == nil {
				f = fail("", "probe: Copy of %s: field %s = %q but the current field values give %q (fields: %s)",
					which, fld, got, want, mr.plain())
			}
		}
		for _, fld := range order {
			want := mr.sem(fld)
			got := valStr(r.Get(x.th, core.SuStr(fld)))
			mr.get(fld) // the model follows the reads (what is cached now)
			if got != want && f == nil {
				f = fail(class, "probe: %s: field %s = %q but the current field values give %q (fields: %s)",
					which, fld, got, want, mr.plain())
			}
		}
	}); e != nil {
		return fail("", "probe panicked: %s", lib.PanicText(e))
	}
	return f
}

var probeOrders = [][]string{
	{"r2", "r3", "r1", "a", "b", "c"},
	{"a", "b", "c", "r1", "r3", "r2"},
	{"r3", "r2", "r1", "c", "b", "a"},
}

var thPool = sync.Pool{New: func() any { return &core.Thread{} }}

// runPath replays path on a fresh record and model, judging every step, then
// probes. Returns the model after the last event (before the probe).
func runPath(root int, activeOb bool, path []int, probeOrder int) (key string, f *failure) {
	x, m := newImpl(thPool.Get().(*core.Thread), root, activeOb)
	defer func() { thPool.Put(x.th) }()
	defer func() {
		if f != nil && f.class == "" && m.tainted && !strings.Contains(f.msg, "model inconsistency") {
			f.class = classROStale
		}
	}()
	for i, e := range path {
		if f := step(x, m, &events[e]); f != nil {
			f.msg = fmt.Sprintf("step %d: %s", i+1, f.msg)
			return "", f
		}
	}
	if m.rec.staleCached() || m.cp != nil && m.cp.staleCached() {
		m.tainted = true
	}
	key = m.key() // the state reached by the path; the probe below goes on from it
	if f := probe(x, x.rec, m.rec, "the record", probeOrders[probeOrder]); f != nil {
		return key, f
	}
	if x.cp != nil {
		if f := probe(x, x.cp, m.cp, "the copy", probeOrders[probeOrder]); f != nil {
			return key, f
		}
	}
	// Second part of the probe: hidden bookkeeping (invalid marks, tracked
	// dependencies) is exercised by changing every plain field of the current
	// record to a new value - notifications and all values are judged again.
	if !m.cur().readonly {
		for i := range probeEvents {
			if f := step(x, m, &probeEvents[i]); f != nil {
				f.msg = "probe: " + f.msg
				return key, f
			}
			r, _ := x.cur()
			mr := m.cur()
			for _, fld := range ruleFields {
				want := mr.sem(fld)
				var got string
				if e := lib.Try(func() { got = valStr(r.Get(x.th, core.SuStr(fld))) }); e != nil {
					return key, fail("", "probe: read of %s panicked: %s", fld, lib.PanicText(e))
				}
				mr.get(fld)
				if got != want {
					return key, fail("", "probe: after %s field %s = %q but the current field values give %q (fields: %s)",
						probeEvents[i].name, fld, got, want, mr.plain())
				}
			}
		}
	}
	return key, nil
}

// ---------------------------------------------------------------- BFS

type succ struct {
	key  string
	path []int
}

type pendingT struct {
	cs  caseT
	f   *failure
	ctx string
}

var (
	pendMu  sync.Mutex
	pending []pendingT // classified failures, reported after the search
	nPend   int
)

// ---------------------------------------------------------------- copy isolation family

// Seven rules z0..z6 that all read field a directly (zk = a $ k), so that a's list
// of dependents grows one by one. n of them are evaluated, the record is copied,
// the copy then evaluates rule i and the original rule j (both orders), a is
// changed on one of the two records, and every rule is read on both records:
// each must give <that record's a> $ k. The copy and the original must not share
// any dependency bookkeeping, whatever the length / spare capacity of the lists
// at the time of the copy.
const nIso = 7

var isoSet core.Value
var isoOnce sync.Once

func isoCase(n, i, j, order, setOn int) string {
	isoOnce.Do(func() {
		for k := 0; k < nIso; k++ {
			core.Global.TestDef(fmt.Sprintf("Rule_z%d", k), compile.Constant(fmt.Sprintf(`function () { return .a $ "%d" }`, k)))
		}
		isoSet = compile.Constant(`function (r) { r.a = "1" }`)
	})
	th := &core.Thread{}
	z := func(k int) core.Value { return core.SuStr(fmt.Sprintf("z%d", k)) }
	msg := ""
	if e := lib.Try(func() {
		r := core.NewSuRecord()
		r.Put(th, core.SuStr("a"), core.SuStr("0"))
		for k := 0; k < n; k++ {
			r.Get(th, z(k))
		}
		cp := r.Copy().(*core.SuRecord)
		if order == 0 {
			cp.Get(th, z(i))
			r.Get(th, z(j))
		} else {
			r.Get(th, z(j))
			cp.Get(th, z(i))
		}
		recs := []*core.SuRecord{r, cp}
		th.Call(isoSet, recs[setOn])
		for w, x := range recs {
			a := "0"
			if w == setOn {
				a = "1"
			}
			for k := 0; k < nIso; k++ {
				if got, want := valStr(x.Get(th, z(k))), a+fmt.Sprint(k); got != want {
					msg = fmt.Sprintf("copy isolation: a = \"0\", rules z0..z%d read, Copy, copy reads z%d / original reads z%d (order %d), a = \"1\" on %s: %s.z%d = %q but its a is %q (rule zk = a $ k)",
						n-1, i, j, order, []string{"the original", "the copy"}[setOn], []string{"original", "copy"}[w], k, got, a)
					return
				}
			}
		}
	}); e != nil {
		return "copy isolation case panicked: " + lib.PanicText(e)
	}
	return msg
}

func copyIsolation(c *lib.Ctx) {
	cases := 0
	for n := 0; n < nIso-1; n++ {
		for i := n; i < nIso; i++ {
			for j := n; j < nIso; j++ {
				if i == j {
					continue
				}
				for order := 0; order < 2; order++ {
					for setOn := 0; setOn < 2; setOn++ {
						cases++
						c.Eval(1)
						c.Transition(5)
						c.TraceValidated(5)
						if msg := isoCase(n, i, j, order, setOn); msg != "" {
							c.Fail("", caseT{Iso: []int{n, i, j, order, setOn}}, "%s", msg)
						}
					}
				}
			}
		}
	}
	c.Set("copy_isolation_cases", cases)
}

func run(c *lib.Ctx) {
	setup()
	copyIsolation(c)
	debug.SetGCPercent(200) // many small short-lived objects, small live heap
	// depth per root: {new, from row} x {passive, active observer}
	depths := lib.Pick(c, []int{5, 4, 5, 4}, []int{7, 6, 6, 6})
	c.Set("events", len(events))
	c.Set("max_depth", depths)
	names := []string{}
	for _, e := range events {
		names = append(names, e.name)
	}
	c.Set("alphabet", names)
	completed := map[string]int{}
	for root := 0; root < 2; root++ {
		for i, activeOb := range []bool{false, true} {
			d := bfs(c, root, activeOb, depths[root*2+i])
			completed[fmt.Sprintf("root%d/activeObserver=%v", root, activeOb)] = d
			if c.Expired() {
				break
			}
		}
	}
	c.Set("depth_completed", completed)
	// Classified candidate-defect cases are reported last so that the whole
	// search completes even while the class is not a listed known finding.
	c.Count("paths_pruned_at_"+classROStale, nPend)
	for _, p := range pending {
		c.Fail(p.f.class, p.cs, "%s [%s]", p.f.msg, p.ctx)
	}
}

func bfs(c *lib.Ctx, root int, activeOb bool, depth int) int {
	seen := map[string]bool{}
	_, m0 := newImpl(&core.Thread{}, root, activeOb)
	seen[m0.key()] = true
	c.State(1)
	frontier := [][]int{{}}
	for d := 1; d <= depth; d++ {
		results := make([][]succ, len(frontier))
		ok := c.Par(len(frontier), func(i int) {
			base := frontier[i]
			var out []succ
			for e := range events {
				if !applicable(base, e) {
					continue
				}
				path := append(append(make([]int, 0, len(base)+1), base...), e)
				key, f := runPath(root, activeOb, path, (i+e)%len(probeOrders))
				c.Eval(1)
				c.Transition(1)
				c.TraceValidated(1)
				if f != nil {
					cs := mkCase(root, activeOb, path)
					ctx := fmt.Sprintf("root=%d activeObserver=%v path=%s", root, activeOb, strings.Join(cs.Events, "; "))
					if f.class != "" {
						pendMu.Lock()
						nPend++
						if len(pending) < 2000 {
							pending = append(pending, pendingT{cs, f, ctx})
						}
						pendMu.Unlock()
					} else {
						c.Fail("", cs, "%s [%s]", f.msg, ctx)
					}
					continue // a failing path is not explored further
				}
				out = append(out, succ{key, path})
			}
			results[i] = out
		})
		var next [][]int
		for _, out := range results {
			for _, s := range out {
				if !seen[s.key] {
					seen[s.key] = true
					next = append(next, s.path)
				}
			}
		}
		c.State(len(next))
		c.Nontrivial(len(next))
		if len(next) > 0 && c.NSamples() < 8 {
			c.Sample(mkCase(root, activeOb, next[len(next)/2]))
		}
		if !ok || c.Stopped() {
			return d - 1
		}
		frontier = next
		if len(frontier) == 0 {
			return d
		}
	}
	return depth
}

func replay(c *lib.Ctx, raw json.RawMessage) {
	setup()
	var cs caseT
	if err := json.Unmarshal(raw, &cs); err != nil {
		lib.Infra("bad case: %v", err)
	}
	if len(cs.Iso) == 5 {
		if msg := isoCase(cs.Iso[0], cs.Iso[1], cs.Iso[2], cs.Iso[3], cs.Iso[4]); msg != "" {
			c.Fail("", cs, "%s", msg)
		}
		return
	}
	for po := range probeOrders {
		if _, f := runPath(cs.Root, cs.ActiveOb, cs.Path, po); f != nil {
			c.Fail(f.class, cs, "%s", f.msg)
			return
		}
	}
}

func main() {
	lib.Main(lib.Spec{
		ID:    "C35",
		Level: "model_checking",
		Rule: "BFS over event sequences (set/get/delete/assign-rule-field/Invalidate/SetDeps/Copy/Set_readonly) on a real SuRecord with rules r1=a,b r2=r1 r3=a?r1:c and an observer; " +
			"successor = replay path + 1 event on a fresh record; a state is distinct when its reference-model state (members, invalid marks, tracked dependencies, read-only, copy) is new; " +
			"every transition is executed on the implementation and followed by a probe reading all fields of the record(s) and of a fresh Copy",
		Assumptions: []string{
			"oracle: from-scratch evaluation of the rule functions on the current plain field values (no caching, no dependency tracking)",
			"a directly assigned rule field keeps the assigned value until it is invalidated (Rules.md); PreSet (documented to bypass rules) is not in the alphabet",
			"Invalidate is only applied to rule fields; Copy re-attaches r3 and a new observer on the copy (documented: Copy copies neither observers nor attached rules)",
			"read-only records: assignments and deletes must be refused, rules still give the current value on every read (object.Set_readonly documentation); Invalidate/SetDeps are not applied to read-only records",
			"observer expectation: one notification for the changed member and for each rule field that held a value and was invalidated by the change; rule fields on a tracked dependency path that hold no value or are already invalid may also be reported; nothing else, nothing twice",
			"verdict is for the enumerated events, values and depth only",
		},
		QuickBudget: 100, ThoroughBudget: 1200,
		Run: run, Replay: replay})
}
