// temporary stand-alone driver for the C40 mux scenario group (merged into checks/c40)
package main

import (
	"encoding/json"

	"verif/lib"
	"verif/sched"
)

func main() {
	lib.Main(lib.Spec{ID: "C40", Level: "exploration", Rule: "mux scenarios", Procs: 16,
		QuickBudget: 90,
		Run: func(c *lib.Ctx) {
			for _, sc := range muxScenarios(c) {
				if c.Expired() {
					c.Cap("scenario %s not started", sc.Name)
					continue
				}
				sched.Explore(c, sc)
			}
		},
		Replay: func(c *lib.Ctx, raw json.RawMessage) { sched.Replay(c, muxScenarios(c), raw) }})
}
