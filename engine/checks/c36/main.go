// C36 Container operations match list and map semantics.
//
// Explicit-state BFS over sequences of container operations on real
// core.SuObject / core.SuRecord values, driven through compiled Suneido code
// (the builtin object methods and the interpreter's subscript/range opcodes are
// on the path).
//
// Roots: Object(), Record() (records share the object methods but route
// Put/Delete/Erase through SuRecord) and an Object() marked concurrent (as if
// shared with another thread, so every method takes the object lock and Sort!
// / Unique! use their unlock-while-comparing paths; a self-deadlock there
// would show as a stall, which a watchdog turns into an infrastructure error).
//
// Events (one transition each, 47): Add(v) for five values (numbers, a string
// and two objects that compare equal but are not equal - for sort stability),
// Add(v, at: k) and ob[k] = v for k in {0, 1, 2, 5, "a"} (integer keys inside,
// at and beyond the list size, so list <-> named migration happens),
// Add(v, w, at: k), Delete(k), Erase(k), Delete(all:), Sort!(), Sort!(Gt
// block), Unique!(), Reverse!(), PopFirst(), PopLast(), Set_readonly(), Copy
// (continue on the copy / on the original; the other container is kept and
// probed at the end: copy-on-write must keep them independent).
//
// Successor = replay the event path on a fresh container + one event; states
// are deduplicated on the reference-model state.
//
// Reference model: an ordered list plus a keyed map with the documented
// migration rule (a named integer key that equals the list size moves into the
// list, repeatedly; Erase inside the list turns the following list members
// into named members), sort = stable sort by the value order of the alphabet
// (numbers < strings < objects; objects by their list members only), Unique!
// drops adjacent equal values, read-only rejects every mutation.
//
// After every path one compiled probe function observes the container(s):
// Size() / Size(list:) / Size(named:), Members and Values (list in order, named
// as a set), Member? and GetDefault for eleven keys, Find and Has? for every
// value, 29 range subscripts, for-in iteration, and equality (both
// directions) with a container built directly from the model.
package main

import (
	"encoding/json"
	"fmt"
	"runtime/debug"
	"sort"
	"strconv"
	"strings"
	"sync"
	"sync/atomic"
	"time"

	_ "github.com/apmckinlay/gsuneido/builtin"
	"github.com/apmckinlay/gsuneido/compile"
	"github.com/apmckinlay/gsuneido/core"

	"verif/lib"
)

// ---------------------------------------------------------------- values

// The value alphabet, in canonical text (also valid Suneido source).
const (
	v1 = `1`
	v2 = `2`
	vx = `"x"`
	vp = `#(1, n: "p")` // vp and vq compare equal (list members only) but are not equal
	vq = `#(1, n: "q")`
)

var allVals = []string{v1, v2, vx, vp, vq}
var goVal = map[string]core.Value{}

// rank gives the value order of the alphabet: numbers < strings < objects.
var rank = map[string]int{v1: 1, v2: 2, vx: 3, vp: 4, vq: 4}

func cmpVal(a, b string) int { return rank[a] - rank[b] }

// keys, canonical text
var keyAlphabet = []string{"0", "1", "2", "5", `"a"`}
var probeKeys = []string{"-1", "0", "1", "2", "3", "4", "5", "6", "7", `"a"`, `"b"`}

func intKey(k string) (int, bool) {
	n, err := strconv.Atoi(k)
	return n, err == nil
}

func goKey(k string) core.Value {
	if n, ok := intKey(k); ok {
		return core.IntVal(n)
	}
	return core.SuStr(strings.Trim(k, `"`))
}

// ---------------------------------------------------------------- reference model

type mob struct {
	list  []string
	named map[string]string
	ro    bool
}

func newMob() *mob { return &mob{named: map[string]string{}} }

func (m *mob) clone() *mob {
	c := &mob{list: append([]string(nil), m.list...), named: map[string]string{}}
	for k, v := range m.named {
		c.named[k] = v
	}
	return c // a copy is modifiable
}

func (m *mob) migrate() {
	for {
		k := strconv.Itoa(len(m.list))
		v, ok := m.named[k]
		if !ok {
			return
		}
		delete(m.named, k)
		m.list = append(m.list, v)
	}
}

func (m *mob) add(v string) {
	m.list = append(m.list, v)
	m.migrate()
}

func (m *mob) put(k, v string) {
	if i, ok := intKey(k); ok && 0 <= i && i < len(m.list) {
		m.list[i] = v
		return
	}
	m.named[k] = v
	m.migrate()
}

// insert implements Add(v, at: i) for an integer position
func (m *mob) insert(i int, v string) {
	if 0 <= i && i <= len(m.list) {
		m.list = append(m.list, "")
		copy(m.list[i+1:], m.list[i:])
		m.list[i] = v
	} else {
		m.named[strconv.Itoa(i)] = v
	}
	m.migrate()
}

func (m *mob) del(k string) {
	if i, ok := intKey(k); ok && 0 <= i && i < len(m.list) {
		m.list = append(m.list[:i:i], m.list[i+1:]...)
		return
	}
	delete(m.named, k)
}

func (m *mob) erase(k string) {
	if i, ok := intKey(k); ok && 0 <= i && i < len(m.list) {
		for j := i + 1; j < len(m.list); j++ {
			m.named[strconv.Itoa(j)] = m.list[j]
		}
		m.list = m.list[:i:i]
		return
	}
	delete(m.named, k)
}

func (m *mob) unique() {
	var out []string
	for i, v := range m.list {
		if i > 0 && v == m.list[i-1] {
			continue
		}
		out = append(out, v)
	}
	m.list = out
}

func (m *mob) key(sb *strings.Builder) {
	sb.WriteString(strings.Join(m.list, ","))
	sb.WriteString("|")
	sb.WriteString(strings.Join(m.namedPairs(), ","))
	if m.ro {
		sb.WriteString("|RO")
	}
}

func (m *mob) namedKeys() []string {
	ks := make([]string, 0, len(m.named))
	for k := range m.named {
		ks = append(ks, k)
	}
	sort.Strings(ks)
	return ks
}

func (m *mob) namedPairs() []string {
	var out []string
	for _, k := range m.namedKeys() {
		out = append(out, k+": "+m.named[k])
	}
	return out
}

func (m *mob) text() string {
	parts := append(append([]string{}, m.list...), m.namedPairs()...)
	s := "#(" + strings.Join(parts, ", ") + ")"
	if m.ro {
		s += " read-only"
	}
	return s
}

func (m *mob) equalState(o *mob) bool {
	var a, b strings.Builder
	m.key(&a)
	o.key(&b)
	return a.String() == b.String()
}

type model struct {
	ob, cp *mob
	onCopy bool
}

func (m *model) cur() *mob {
	if m.onCopy {
		return m.cp
	}
	return m.ob
}

func (m *model) key() string {
	var sb strings.Builder
	m.ob.key(&sb)
	if m.cp != nil {
		sb.WriteString(" || ")
		m.cp.key(&sb)
		if m.onCopy {
			sb.WriteString(" C")
		}
	}
	return sb.String()
}

// ---------------------------------------------------------------- events

type event struct {
	name string
	fn   core.Value
	kind byte // 'm' mutator, 'o' Set_readonly, 'c' copy-continue-on-copy, 'k' copy-keep-original
	// apply performs the operation on the model and returns the canonical text
	// of the expected result ("this" when the container itself is returned)
	apply func(m *mob) string
}

var events []event

func defEvents() {
	add := func(src string, apply func(m *mob) string) {
		events = append(events, event{name: src, kind: 'm', apply: apply,
			fn: compile.Constant("function (ob) { return " + src + " }")})
	}
	for _, v := range allVals {
		add("ob.Add("+v+")", func(m *mob) string { m.add(v); return "this" })
	}
	for _, k := range keyAlphabet {
		for _, v := range []string{v2, vx} {
			add("ob.Add("+v+", at: "+k+")", func(m *mob) string {
				if i, ok := intKey(k); ok {
					m.insert(i, v)
				} else {
					m.put(k, v)
				}
				return "this"
			})
		}
	}
	for _, k := range keyAlphabet {
		for _, v := range []string{v1, vq} {
			add("ob["+k+"] = "+v, func(m *mob) string { m.put(k, v); return v })
		}
	}
	for _, i := range []int{1, 5} {
		add(fmt.Sprintf("ob.Add(%s, %s, at: %d)", v1, v2, i), func(m *mob) string {
			m.insert(i, v1)
			m.insert(i+1, v2)
			return "this"
		})
	}
	for _, k := range keyAlphabet {
		add("ob.Delete("+k+")", func(m *mob) string { m.del(k); return "this" })
	}
	for _, k := range keyAlphabet {
		add("ob.Erase("+k+")", func(m *mob) string { m.erase(k); return "this" })
	}
	add("ob.Delete(all:)", func(m *mob) string { m.list = nil; m.named = map[string]string{}; return "this" })
	add("ob.Sort!()", func(m *mob) string {
		sort.SliceStable(m.list, func(i, j int) bool { return cmpVal(m.list[i], m.list[j]) < 0 })
		return "this"
	})
	add("ob.Sort!({|x,y| x > y })", func(m *mob) string {
		sort.SliceStable(m.list, func(i, j int) bool { return cmpVal(m.list[i], m.list[j]) > 0 })
		return "this"
	})
	add("ob.Unique!()", func(m *mob) string { m.unique(); return "this" })
	add("ob.Reverse!()", func(m *mob) string {
		for lo, hi := 0, len(m.list)-1; lo < hi; lo, hi = lo+1, hi-1 {
			m.list[lo], m.list[hi] = m.list[hi], m.list[lo]
		}
		return "this"
	})
	add("ob.PopFirst()", func(m *mob) string {
		if len(m.list) == 0 {
			return "this"
		}
		v := m.list[0]
		m.list = append(m.list[:0:0], m.list[1:]...)
		return v
	})
	add("ob.PopLast()", func(m *mob) string {
		if len(m.list) == 0 {
			return "this"
		}
		v := m.list[len(m.list)-1]
		m.list = m.list[: len(m.list)-1 : len(m.list)-1]
		return v
	})
	events = append(events,
		event{name: "ob.Set_readonly()", kind: 'o', fn: compile.Constant("function (ob) { return ob.Set_readonly() }")},
		event{name: "Copy, continue on the copy", kind: 'c', fn: compile.Constant("function (ob) { return ob.Copy() }")},
		event{name: "Copy, continue on the original", kind: 'k', fn: compile.Constant("function (ob) { return ob.Copy() }")})
}

// applicable: one Copy per path; Set_readonly only once per container
func applicable(path []int, e int) bool {
	hasCopy, onCopy := false, false
	var ro [2]bool
	for _, p := range path {
		switch events[p].kind {
		case 'c':
			hasCopy, onCopy = true, true
		case 'k':
			hasCopy = true
		case 'o':
			if onCopy {
				ro[1] = true
			} else {
				ro[0] = true
			}
		}
	}
	curRO := ro[0]
	if onCopy {
		curRO = ro[1]
	}
	switch events[e].kind {
	case 'c', 'k':
		return !hasCopy
	case 'o':
		return !curRO
	}
	return true
}

// ---------------------------------------------------------------- probe

type rangeT struct {
	src   string
	from  int
	x     int // to, or length when byLen
	byLen bool
}

const omitted = 1 << 40 // stands for an omitted bound ("to the end")

var ranges []rangeT

func defRanges() {
	for _, from := range []int{-2, 0, 1, 2} {
		for _, to := range []int{-1, 0, 1, 9} {
			ranges = append(ranges, rangeT{fmt.Sprintf("ob[%d .. %d]", from, to), from, to, false})
		}
	}
	for _, from := range []int{-1, 0, 1} {
		for _, n := range []int{-1, 0, 2} {
			ranges = append(ranges, rangeT{fmt.Sprintf("ob[%d :: %d]", from, n), from, n, true})
		}
	}
	ranges = append(ranges, rangeT{"ob[1 ..]", 1, omitted, false}, rangeT{"ob[-1 ..]", -1, omitted, false},
		rangeT{"ob[.. 1]", 0, 1, false}, rangeT{"ob[:: 1]", 0, 1, true})
}

// modelRange is the documented range semantics (Subscript.md)
func modelRange(list []string, r rangeT) []string {
	n := len(list)
	from := r.from
	if from < 0 {
		from += n
		if from < 0 {
			from = 0
		}
	}
	if from > n {
		from = n
	}
	var to int
	if r.byLen {
		l := r.x
		if l < 0 {
			l = 0
		}
		to = from + l
	} else {
		to = r.x
		if to < 0 {
			to += n
		}
	}
	if r.x == omitted {
		to = n
	}
	if to < from {
		to = from
	}
	if to > n {
		to = n
	}
	return list[from:to]
}

var probeFn core.Value
var probeLabels []string

func defProbe() {
	// one function returning Object(Object(obs...), Object(obs...), ...):
	// groups of 12 keep the argument count small
	var exprs []string
	add := func(label, expr string) {
		probeLabels = append(probeLabels, label)
		exprs = append(exprs, expr)
	}
	add("Size()", "ob.Size()")
	add("Size(list:)", "ob.Size(list:)")
	add("Size(named:)", "ob.Size(named:)")
	add("Members(list:)", "ob.Members(list:).Copy()")
	add("Members(named:)", "ob.Members(named:).Copy()")
	add("Members()", "ob.Members().Copy()")
	add("Values(list:)", "ob.Values(list:).Copy()")
	add("Values(named:)", "ob.Values(named:).Copy()")
	add("Values()", "ob.Values().Copy()")
	for _, k := range probeKeys {
		add("Member?("+k+")", "ob.Member?("+k+")")
		add("GetDefault("+k+")", `ob.GetDefault(`+k+`, "<none>")`)
	}
	for _, v := range allVals {
		add("Find("+v+")", "ob.Find("+v+")")
		add("Has?("+v+")", "ob.Has?("+v+")")
	}
	for _, r := range ranges {
		add(r.src, r.src)
	}
	// a range is a new container: changing it in place must not change ob
	add("list part after changing the values of ob[0 .. 9] and ob[1 ..] in place",
		"(function (ob) {\n r = ob[0 .. 9]\n r.Reverse!()\n r.Add('zz' at: 0)\n if r.Size() > 1\n  r[1] = 'zz'\n r.Sort!()\n"+
			" r2 = ob[1 ..]\n if r2.Size() > 0\n  r2[0] = 'zz'\n return ob.Values(list:).Copy()\n })(ob)")
	add("for x in ob", "it")
	var sb strings.Builder
	sb.WriteString("function (ob) {\n it = Object()\n for x in ob\n  it.Add(x)\n return Object(")
	for i := 0; i < len(exprs); i += 12 {
		j := min(i+12, len(exprs))
		if i > 0 {
			sb.WriteString(",")
		}
		sb.WriteString("\n  Object(" + strings.Join(exprs[i:j], ", ") + ")")
	}
	sb.WriteString(")\n}")
	probeFn = compile.Constant(sb.String())
}

// canon renders an implementation value in the canonical text of the alphabet
func canon(v core.Value) string {
	switch x := v.(type) {
	case nil:
		return "<nil>"
	case core.SuStr:
		return `"` + string(x) + `"`
	}
	if c, ok := v.ToContainer(); ok {
		l, n := contents(c)
		var np []string
		for k, val := range n {
			np = append(np, strings.Trim(k, `"`)+": "+val)
		}
		sort.Strings(np)
		return "#(" + strings.Join(append(l, np...), ", ") + ")"
	}
	if s, ok := v.ToStr(); ok {
		return `"` + s + `"`
	}
	return v.String()
}

// contents reads a container through its iterator: list values in order, named as a map
func contents(c core.Container) ([]string, map[string]string) {
	var list []string
	named := map[string]string{}
	iter := c.ArgsIter()
	for k, v := iter(); v != nil; k, v = iter() {
		if k == nil {
			list = append(list, canon(v))
		} else {
			named[canon(k)] = canon(v)
		}
	}
	return list, named
}

func listOf(v core.Value) []string {
	c, ok := v.ToContainer()
	if !ok {
		return []string{"<not a container: " + v.String() + ">"}
	}
	l, n := contents(c)
	if len(n) > 0 {
		return append(l, "<unexpected named members>")
	}
	return l
}

func sameList(a, b []string) bool {
	return strings.Join(a, "\x00") == strings.Join(b, "\x00") && len(a) == len(b)
}

func sortedCopy(s []string) []string {
	c := append([]string(nil), s...)
	sort.Strings(c)
	return c
}

// probe observes one container and compares every observation with the model.
func probe(th **core.Thread, ob core.Value, m *mob, which string) string {
	var res core.Value
	if e := lib.Try(func() { res = (*th).Call(probeFn, ob) }); e != nil {
		*th = &core.Thread{}
		return fmt.Sprintf("probe of %s panicked: %s (model %s)", which, lib.PanicText(e), m.text())
	}
	var obs []core.Value
	groups := res.(*core.SuObject)
	for g := 0; g < groups.ListSize(); g++ {
		grp := groups.ListGet(g).(*core.SuObject)
		for j := 0; j < grp.ListSize(); j++ {
			obs = append(obs, grp.ListGet(j))
		}
	}
	if len(obs) != len(probeLabels) {
		return fmt.Sprintf("probe returned %d observations, expected %d", len(obs), len(probeLabels))
	}
	i := 0
	next := func() (string, core.Value) {
		l, v := probeLabels[i], obs[i]
		i++
		return l, v
	}
	bad := func(label, got, want string) string {
		return fmt.Sprintf("%s: %s = %s, expected %s (container must be %s)", which, label, got, want, m.text())
	}
	expectScalar := func(want string) string {
		l, v := next()
		if got := canon(v); got != want {
			return bad(l, got, want)
		}
		return ""
	}
	expectList := func(want []string) string {
		l, v := next()
		if got := listOf(v); !sameList(got, want) {
			return bad(l, "#("+strings.Join(got, ", ")+")", "#("+strings.Join(want, ", ")+")")
		}
		return ""
	}
	// list part in order, then the named part in any order
	expectListThenSet := func(first, rest []string) string {
		l, v := next()
		got := listOf(v)
		ok := len(got) == len(first)+len(rest) && sameList(got[:len(first)], first) &&
			sameList(sortedCopy(got[len(first):]), sortedCopy(rest))
		if !ok {
			return bad(l, "#("+strings.Join(got, ", ")+")",
				"#("+strings.Join(first, ", ")+") followed by, in any order, ("+strings.Join(rest, ", ")+")")
		}
		return ""
	}
	nl, nn := len(m.list), len(m.named)
	idx := make([]string, nl)
	for j := range idx {
		idx[j] = strconv.Itoa(j)
	}
	nkeys := m.namedKeys()
	nvals := make([]string, 0, nn)
	for _, k := range nkeys {
		nvals = append(nvals, m.named[k])
	}
	checks := []func() string{
		func() string { return expectScalar(strconv.Itoa(nl + nn)) },
		func() string { return expectScalar(strconv.Itoa(nl)) },
		func() string { return expectScalar(strconv.Itoa(nn)) },
		func() string { return expectList(idx) },
		func() string { return expectListThenSet(nil, nkeys) },
		func() string { return expectListThenSet(idx, nkeys) },
		func() string { return expectList(m.list) },
		func() string { return expectListThenSet(nil, nvals) },
		func() string { return expectListThenSet(m.list, nvals) },
	}
	for _, ck := range checks {
		if msg := ck(); msg != "" {
			return msg
		}
	}
	for _, k := range probeKeys {
		val, ok := m.named[k]
		if j, isInt := intKey(k); isInt && 0 <= j && j < nl {
			val, ok = m.list[j], true
		}
		wantHas, wantVal := "false", `"<none>"`
		if ok {
			wantHas, wantVal = "true", val
		}
		if msg := expectScalar(wantHas); msg != "" {
			return msg
		}
		if msg := expectScalar(wantVal); msg != "" {
			return msg
		}
	}
	for _, v := range allVals {
		l, got := next()
		g := canon(got)
		first := -1
		for j, x := range m.list {
			if x == v {
				first = j
				break
			}
		}
		inNamed := false
		for _, x := range m.named {
			if x == v {
				inNamed = true
			}
		}
		switch {
		case first >= 0:
			if g != strconv.Itoa(first) {
				return bad(l, g, strconv.Itoa(first))
			}
		case inNamed:
			// undefined which named member; it must be one that holds the value
			if m.named[g] != v {
				return bad(l, g, "a named member holding "+v)
			}
		default:
			if g != "false" {
				return bad(l, g, "false")
			}
		}
		want := "false"
		if first >= 0 || inNamed {
			want = "true"
		}
		if msg := expectScalar(want); msg != "" {
			return msg
		}
	}
	for _, r := range ranges {
		if msg := expectList(modelRange(m.list, r)); msg != "" {
			return msg
		}
	}
	if msg := expectList(m.list); msg != "" {
		return msg
	}
	if msg := expectListThenSet(m.list, nvals); msg != "" {
		return msg
	}
	// equality with a container built directly from the model
	exp := make([]core.Value, nl)
	for j, v := range m.list {
		exp[j] = goVal[v]
	}
	eo := core.NewSuObject(exp)
	for _, k := range nkeys {
		eo.Set(goKey(k), goVal[m.named[k]])
	}
	var eq1, eq2 bool
	if e := lib.Try(func() { eq1, eq2 = eo.Equal(ob), ob.Equal(eo) }); e != nil {
		return fmt.Sprintf("%s: equality panicked: %s", which, lib.PanicText(e))
	}
	if !eq1 || !eq2 {
		return fmt.Sprintf("%s: is not equal to %s built directly (expected.Equal(ob)=%v ob.Equal(expected)=%v); Display: %s",
			which, m.text(), eq1, eq2, ob.String())
	}
	if ro := core.ToContainer(ob).IsReadOnly(); ro != m.ro {
		return fmt.Sprintf("%s: Readonly? = %v, expected %v", which, ro, m.ro)
	}
	return ""
}

// ---------------------------------------------------------------- implementation side

type impl struct {
	th     *core.Thread
	ob, cp core.Value
	onCopy bool
}

func (x *impl) cur() core.Value {
	if x.onCopy {
		return x.cp
	}
	return x.ob
}

type caseT struct {
	Root   int      `json:"root"`
	Path   []int    `json:"path"`
	Events []string `json:"events"`
}

var rootNames = []string{"Object()", "Record()", "Object() marked concurrent (locking paths)"}

func mkCase(root int, path []int) caseT {
	cs := caseT{Root: root, Path: append([]int(nil), path...)}
	for _, e := range path {
		cs.Events = append(cs.Events, events[e].name)
	}
	return cs
}

func newImpl(th *core.Thread, root int) (*impl, *model) {
	x := &impl{th: th}
	switch root {
	case 0:
		x.ob = &core.SuObject{}
	case 1:
		x.ob = core.NewSuRecord()
	case 2:
		ob := &core.SuObject{}
		ob.SetConcurrent() // as if shared with another thread: every method locks
		x.ob = ob
	}
	return x, &model{ob: newMob()}
}

func step(x *impl, m *model, ev *event) string {
	ob := x.cur()
	mo := m.cur()
	var res core.Value
	e := lib.Try(func() { res = x.th.Call(ev.fn, ob) })
	if e != nil {
		x.th = &core.Thread{} // a Go-level recover does not unwind the interpreter's frames
	}
	switch ev.kind {
	case 'o':
		if e != nil {
			return fmt.Sprintf("%s panicked: %s", ev.name, lib.PanicText(e))
		}
		mo.ro = true
	case 'c', 'k':
		if e != nil {
			return fmt.Sprintf("Copy panicked: %s", lib.PanicText(e))
		}
		if _, ok := res.ToContainer(); !ok || res == ob {
			return fmt.Sprintf("Copy returned %v", res)
		}
		x.cp = res
		m.cp = mo.clone()
		if ev.kind == 'c' {
			x.onCopy, m.onCopy = true, true
		}
	case 'm':
		if mo.ro {
			// read-only: every mutation must be rejected; an operation that
			// would change nothing may also simply do nothing
			trial := mo.clone()
			ev.apply(trial)
			trial.ro = true
			if e == nil && !trial.equalState(mo) {
				return fmt.Sprintf("%s on a read-only container was not rejected (container %s)", ev.name, mo.text())
			}
			if e != nil && !strings.Contains(lib.PanicText(e), "readonly") {
				return fmt.Sprintf("%s on a read-only container: unexpected exception %q", ev.name, lib.PanicText(e))
			}
			return ""
		}
		before := mo.text()
		want := ev.apply(mo)
		if e != nil {
			return fmt.Sprintf("%s on %s panicked: %s", ev.name, before, lib.PanicText(e))
		}
		if want == "this" {
			if res != ob {
				return fmt.Sprintf("%s on %s returned %s, expected the container itself", ev.name, before, canon(res))
			}
		} else if got := canon(res); got != want {
			return fmt.Sprintf("%s on %s returned %s, expected %s", ev.name, before, got, want)
		}
	}
	return ""
}

var thPool = sync.Pool{New: func() any { return &core.Thread{} }}

func runPath(root int, path []int) (*model, string) {
	x, m := newImpl(thPool.Get().(*core.Thread), root)
	defer func() { thPool.Put(x.th) }()
	for i, e := range path {
		if msg := step(x, m, &events[e]); msg != "" {
			return m, fmt.Sprintf("step %d: %s", i+1, msg)
		}
	}
	if msg := probe(&x.th, x.ob, m.ob, "the container"); msg != "" {
		return m, msg
	}
	if x.cp != nil {
		if msg := probe(&x.th, x.cp, m.cp, "the copy"); msg != "" {
			return m, msg
		}
	}
	return m, ""
}

// ---------------------------------------------------------------- BFS

type succ struct {
	key  string
	path []int
}

var setupOnce sync.Once

func setup() {
	setupOnce.Do(func() {
		for _, v := range allVals {
			goVal[v] = compile.Constant(v)
		}
		defEvents()
		defRanges()
		defProbe()
	})
}

var progress atomic.Int64

// watchdog: the concurrent root takes real locks; a self-deadlock must not hang the check
func watchdog() {
	last, since := int64(-1), time.Now()
	for {
		time.Sleep(5 * time.Second)
		if p := progress.Load(); p != last {
			last, since = p, time.Now()
		} else if time.Since(since) > 180*time.Second {
			lib.Infra("no progress for 180 s (deadlock in a locked container operation?)")
		}
	}
}

func run(c *lib.Ctx) {
	setup()
	go watchdog()
	debug.SetGCPercent(200)
	// depth per root: Object(), Record()
	depths := lib.Pick(c, []int{4, 3, 3}, []int{5, 5, 4})
	c.Set("events", len(events))
	c.Set("max_depth", depths)
	c.Set("observations_per_probe", len(probeLabels))
	names := []string{}
	for _, e := range events {
		names = append(names, e.name)
	}
	c.Set("alphabet", names)
	sortPhase(c)
	completed := map[string]int{}
	for root := range rootNames {
		completed[rootNames[root]] = bfs(c, root, depths[root])
		if c.Expired() {
			break
		}
	}
	c.Set("depth_completed", completed)
}

// ---------------------------------------------------------------- sort stability on longer lists
//
// Lists reachable by the BFS are short; library sorts are trivially stable on
// short inputs (insertion sort). This part enumerates longer lists with many
// compare-equal but distinguishable members and runs Sort!() and
// Sort!({|x,y| x > y }) on each; the result must be the stable sort.

type sortCase struct {
	List []string `json:"list"`
	Desc bool     `json:"descending_block"`
}

var sortFns [2]core.Value

func checkSort(c *lib.Ctx, th **core.Thread, list []string) {
	for d := 0; d < 2; d++ {
		vals := make([]core.Value, len(list))
		for i, v := range list {
			vals[i] = goVal[v]
		}
		ob := core.NewSuObject(vals)
		want := append([]string(nil), list...)
		sort.SliceStable(want, func(i, j int) bool {
			if d == 1 {
				return cmpVal(want[i], want[j]) > 0
			}
			return cmpVal(want[i], want[j]) < 0
		})
		c.Eval(1)
		progress.Add(1)
		if e := lib.Try(func() { (*th).Call(sortFns[d], ob) }); e != nil {
			*th = &core.Thread{}
			c.Fail("", sortCase{list, d == 1}, "Sort! panicked: %s", lib.PanicText(e))
			continue
		}
		got, named := contents(ob)
		if len(named) != 0 || !sameList(got, want) {
			c.Fail("", sortCase{list, d == 1}, "%s of #(%s) gave #(%s), the stable sort is #(%s)",
				[]string{"Sort!()", "Sort!({|x,y| x > y })"}[d], strings.Join(list, ", "),
				strings.Join(got, ", "), strings.Join(want, ", "))
		}
	}
}

func sortPhase(c *lib.Ctx) {
	sortFns[0] = compile.Constant("function (ob) { ob.Sort!() }")
	sortFns[1] = compile.Constant("function (ob) { ob.Sort!({|x,y| x > y }) }")
	var lists [][]string
	pq := func(bits, n int) []string {
		l := make([]string, n)
		for i := range l {
			l[i] = vp
			if bits>>i&1 == 1 {
				l[i] = vq
			}
		}
		return l
	}
	// A: every list of length 13 (and 16 in the thorough tier) of the two compare-equal objects
	for b := 0; b < 1<<13; b++ {
		lists = append(lists, pq(b, 13))
	}
	if !c.Quick() {
		for b := 0; b < 1<<16; b++ {
			lists = append(lists, pq(b, 16))
		}
	}
	// C: length 13 with the numbers 1 and 2 at every pair of positions
	stepC := lib.Pick(c, 37, 1)
	for i := 0; i < 13; i++ {
		for j := 0; j < 13; j++ {
			if i == j {
				continue
			}
			for b := 0; b < 1<<11; b += stepC {
				rest := pq(b, 11)
				l := make([]string, 0, 13)
				for k := 0; k < 13; k++ {
					switch k {
					case i:
						l = append(l, v1)
					case j:
						l = append(l, v2)
					default:
						l = append(l, rest[0])
						rest = rest[1:]
					}
				}
				lists = append(lists, l)
			}
		}
	}
	// D: length 24 (beyond the insertion-sort blocks of merge sorts): fixed mixed prefix + every suffix
	prefix := []string{vq, v2, vp, vx, vq, vp, v1, vq, vp, v2, vp, vq}
	for b := 0; b < 1<<12; b++ {
		lists = append(lists, append(append([]string(nil), prefix...), pq(b, 12)...))
	}
	c.Set("sort_lists", len(lists))
	c.Par(len(lists), func(i int) {
		th := thPool.Get().(*core.Thread)
		checkSort(c, &th, lists[i])
		thPool.Put(th)
	})
	c.Nontrivial(len(lists))
	c.Sample(map[string]any{"sort_list": lists[len(lists)/2]})
}

func bfs(c *lib.Ctx, root int, depth int) int {
	seen := map[string]bool{}
	_, m0 := newImpl(nil, root)
	seen[m0.key()] = true
	c.State(1)
	frontier := [][]int{{}}
	for d := 1; d <= depth; d++ {
		results := make([][]succ, len(frontier))
		ok := c.Par(len(frontier), func(i int) {
			base := frontier[i]
			var out []succ
			for e := range events {
				if !applicable(base, e) {
					continue
				}
				path := append(append(make([]int, 0, len(base)+1), base...), e)
				m, msg := runPath(root, path)
				progress.Add(1)
				c.Eval(1)
				c.Transition(1)
				c.TraceValidated(1)
				if msg != "" {
					cs := mkCase(root, path)
					c.Fail("", cs, "%s [%s; %s]", msg, rootNames[root], strings.Join(cs.Events, "; "))
					continue
				}
				out = append(out, succ{m.key(), path})
			}
			results[i] = out
		})
		var next [][]int
		for _, out := range results {
			for _, s := range out {
				if !seen[s.key] {
					seen[s.key] = true
					next = append(next, s.path)
				}
			}
		}
		c.State(len(next))
		c.Nontrivial(len(next))
		if len(next) > 0 && c.NSamples() < 8 {
			c.Sample(mkCase(root, next[len(next)*2/3]))
		}
		if !ok || c.Stopped() {
			return d - 1
		}
		frontier = next
		if len(frontier) == 0 {
			return d
		}
	}
	return depth
}

func replay(c *lib.Ctx, raw json.RawMessage) {
	setup()
	var sc sortCase
	if err := json.Unmarshal(raw, &sc); err == nil && len(sc.List) > 0 {
		sortFns[0] = compile.Constant("function (ob) { ob.Sort!() }")
		sortFns[1] = compile.Constant("function (ob) { ob.Sort!({|x,y| x > y }) }")
		th := &core.Thread{}
		checkSort(c, &th, sc.List)
		return
	}
	var cs caseT
	if err := json.Unmarshal(raw, &cs); err != nil {
		lib.Infra("bad case: %v", err)
	}
	if _, msg := runPath(cs.Root, cs.Path); msg != "" {
		c.Fail("", cs, "%s", msg)
	}
}

func main() {
	lib.Main(lib.Spec{
		ID:    "C36",
		Level: "model_checking",
		Rule: "BFS over sequences of container operations (Add, Add at:, subscript assignment, Delete, Erase, Delete(all:), Sort!, Unique!, Reverse!, PopFirst/PopLast, Set_readonly, Copy) " +
			"on a real SuObject and SuRecord; successor = replay path + 1 event on a fresh container; a state is distinct when the reference-model state (list, named map, read-only, copy) is new; " +
			"every transition is executed on the implementation and followed by a probe of ~50 observations (sizes, members, values, lookups, Find, ranges, iteration, equality)",
		Assumptions: []string{
			"reference model: ordered list + keyed map with the documented list/named migration; value order of the alphabet numbers < strings < objects, objects compared by list members only",
			"Find on a value held only by named members may return any named member holding it (documented as undefined)",
			"a read-only container must reject every operation that would change it; operations that would change nothing may succeed",
			"verdict is for the enumerated keys, values, events and depth only",
		},
		QuickBudget: 70, ThoroughBudget: 800,
		Run: run, Replay: replay})
}
