// C37 Regular expressions match according to their semantics.
//
// Enumerated (bounded-exhaustive, simplest first):
//
//	(A) "structure" family: ALL patterns of the grammar below up to a SIZE bound
//	    (size = leaves + groups + anchors):
//	        regex   := seq ( '|' seq )*
//	        seq     := [^ | \A]  (atom quant?)+  [$ | \Z]   (anchors only at the ends of a seq)
//	        atom    := a | b | . | '(' regex ')'
//	        quant   := * + ? *? +? ??
//	    quick:    size <= 2 over the leaves {a,b,.}, size 3 over {a,b}
//	    thorough: size <= 3 over {a,b,.}, size 4 over {a,b} with the quantifiers {none, *, ??}
//	    each run against ALL subject strings over {a,b,1} of length <= 5
//	    (quick: 4 for the patterns of size <= 2, 3 for size 3).
//	(B) "class" family: all sequences of 1..2 (atom quant?) over the leaf atoms
//	    {a, b, A, ., [ab], [^a], [a-b], [^ab], [a-b1], [\da], [AB], [^A], \d, \w, \s, \D, \W, \S},
//	    plain / with (?i) prefix / wrapped as ^…$ and \A…\Z, against all
//	    subjects over {a,b,A,B,1,' ',_,-} of length <= 3.
//	(C) the structure family of size <= 2 (quick) / 3 (thorough) again with the
//	    (?i) prefix against subjects over {a,A,b,1}.
//	(D) crash/“reported error only” part for the WHOLE syntax: every string of
//	    length <= 4 (thorough 5) over the pattern alphabet
//	    { a ( ) [ ] ^ | * ? + \ - . $ : i q } goes to regex.Compile and, if it
//	    compiles, is matched against a few subjects. Only a panic with a string
//	    starting "regex: " is allowed.
//
// Oracle: Go's regexp (leftmost-first / Perl-like priorities) on the
// *syntactic common subset* above (subjects contain no \r or \n, so ^ $ . and
// negated classes mean the same in both engines; Suneido \Z is printed as Go
// \z). Compared per (pattern, subject):
//
//	Match(s, &cap)            == FindStringSubmatchIndex (match / span / every group span)
//	Match(s, nil), Matches(s) == match or not
//	FirstMatch(s, i, &cap)    == Go `\A(?s:.{i}.*?)(R)`   (first match starting at or after i, in the context of the whole subject)
//	LastMatch(s, i, &cap)     == the largest j<=i for which Go `\A(?s:.{j})(R)` matches, with its spans
//
// A watchdog turns a hang (a single pattern taking > 120 s for work that
// needs milliseconds) into a reported violation.
package main

import (
	"encoding/json"
	"fmt"
	"os"
	"regexp"
	"strings"
	"sync"
	"sync/atomic"
	"time"

	"github.com/apmckinlay/gsuneido/util/regex"

	"verif/lib"
)

// ---------------------------------------------------------------- patterns

type node struct {
	s string // Suneido syntax
	g string // Go syntax
}

type gen struct {
	leaves       []string
	quants       []string
	startAnchors []node
	endAnchors   []node
	memoR        map[int][]node
	memoS        map[int][]node
}

var allQuants = []string{"", "*", "+", "?", "*?", "+?", "??"}

// Size of a pattern = number of leaves + groups + anchors.

// atoms of exactly size n: a leaf (n==1) or a group around a regex of size n-1
func (g *gen) atoms(n int) []node {
	var out []node
	if n == 1 {
		for _, l := range g.leaves {
			out = append(out, node{l, l})
		}
	} else {
		for _, r := range g.regexes(n - 1) {
			out = append(out, node{"(" + r.s + ")", "(" + r.g + ")"})
		}
	}
	return out
}

// body: sequences of quantified atoms of exactly size n (n>=1)
func (g *gen) body(n int) []node {
	if r, ok := g.memoS[n]; ok {
		return r
	}
	var out []node
	for first := 1; first <= n; first++ {
		var rest []node
		if first == n {
			rest = []node{{"", ""}}
		} else {
			rest = g.body(n - first)
		}
		for _, a := range g.atoms(first) {
			for _, q := range g.quants {
				for _, r := range rest {
					out = append(out, node{a.s + q + r.s, a.g + q + r.g})
				}
			}
		}
	}
	g.memoS[n] = out
	return out
}

var allStartAnchors = []node{{"^", "^"}, {`\A`, `\A`}}
var allEndAnchors = []node{{"$", "$"}, {`\Z`, `\z`}}

// seqs of exactly size n: [start anchor] body [end anchor], or anchors only
func (g *gen) seqs(n int) []node {
	var out []node
	out = append(out, g.body(n)...)
	if n == 1 {
		out = append(out, g.startAnchors...)
		out = append(out, g.endAnchors...)
	}
	if n == 2 {
		for _, a := range g.startAnchors {
			for _, e := range g.endAnchors {
				out = append(out, node{a.s + e.s, a.g + e.g})
			}
		}
	}
	if n >= 2 {
		for _, b := range g.body(n - 1) {
			for _, a := range g.startAnchors {
				out = append(out, node{a.s + b.s, a.g + b.g})
			}
			for _, e := range g.endAnchors {
				out = append(out, node{b.s + e.s, b.g + e.g})
			}
		}
	}
	if n >= 3 {
		for _, b := range g.body(n - 2) {
			for _, a := range g.startAnchors {
				for _, e := range g.endAnchors {
					out = append(out, node{a.s + b.s + e.s, a.g + b.g + e.g})
				}
			}
		}
	}
	return out
}

// regexes of exactly size n: seq ('|' seq)*
func (g *gen) regexes(n int) []node {
	if r, ok := g.memoR[n]; ok {
		return r
	}
	var out []node
	out = append(out, g.seqs(n)...)
	for first := 1; first < n; first++ {
		for _, a := range g.seqs(first) {
			for _, r := range g.regexes(n - first) {
				out = append(out, node{a.s + "|" + r.s, a.g + "|" + r.g})
			}
		}
	}
	g.memoR[n] = out
	return out
}

func newGen(leaves, quants []string) *gen {
	return &gen{leaves: leaves, quants: quants, startAnchors: allStartAnchors, endAnchors: allEndAnchors,
		memoR: map[int][]node{}, memoS: map[int][]node{}}
}

type work struct {
	Fam   string `json:"fam"`
	Sun   string `json:"pattern"`
	Go    string `json:"go"`
	Alpha string `json:"alphabet"`
	Len   int    `json:"maxlen"`
}

func ngroups(p string) int { return strings.Count(p, "(") - strings.Count(p, "(?") }

func buildWork(c *lib.Ctx) []work {
	var ws []work
	seen := map[string]bool{}
	add := func(w work) {
		if ngroups(w.Sun) > 9 { // Suneido records \1..\9 only
			return
		}
		if !seen[w.Sun+"\x00"+w.Alpha] {
			seen[w.Sun+"\x00"+w.Alpha] = true
			ws = append(ws, w)
		}
	}
	lenA := lib.Pick(c, 4, 5)
	// (A) structure family
	g3 := newGen([]string{"a", "b", "."}, allQuants)
	g2 := newGen([]string{"a", "b"}, allQuants)
	gr := newGen([]string{"a", "b"}, []string{"", "*", "??"})
	for n := 1; n <= lib.Pick(c, 2, 3); n++ {
		for _, r := range g3.regexes(n) {
			add(work{"A", r.s, r.g, "ab1", lenA})
		}
	}
	if c.Quick() {
		for _, r := range g2.regexes(3) {
			add(work{"A", r.s, r.g, "ab1", 3})
		}
	} else {
		for _, r := range gr.regexes(4) {
			add(work{"A4", r.s, r.g, "ab1", lenA})
		}
	}
	// (B) class family
	classes := []string{"a", "b", "A", ".", "[ab]", "[^a]", "[a-b]", "[^ab]", "[a-b1]", `[\da]`, "[AB]", "[^A]",
		`\d`, `\w`, `\s`, `\D`, `\W`, `\S`}
	elems := func(qs []string) []string {
		var el []string
		for _, a := range classes {
			for _, q := range qs {
				el = append(el, a+q)
			}
		}
		return el
	}
	const alphaB = "abAB1 _-"
	variants := func(b string, all bool) {
		add(work{"B", b, b, alphaB, 3})
		add(work{"Bi", "(?i)" + b, "(?i)" + b, alphaB, 3})
		if all {
			add(work{"B^", "^" + b + "$", "^" + b + "$", alphaB, 3})
			add(work{"BA", `\A` + b + `\Z`, `\A` + b + `\z`, alphaB, 3})
		}
	}
	for _, x := range elems(allQuants) {
		variants(x, true)
	}
	pairEl := elems(lib.Pick(c, []string{"", "*", "+?"}, allQuants))
	for _, x := range pairEl {
		for _, y := range pairEl {
			variants(x+y, !c.Quick())
		}
	}
	// (C) structure family, ignore case
	if c.Quick() {
		for n := 1; n <= 2; n++ {
			for _, r := range g3.regexes(n) {
				add(work{"Ci", "(?i)" + r.s, "(?i)" + r.g, "aAb1", 4})
			}
		}
	} else {
		for n := 1; n <= 3; n++ {
			for _, r := range g2.regexes(n) {
				add(work{"Ci", "(?i)" + r.s, "(?i)" + r.g, "aAb1", 4})
			}
		}
	}
	// (D) case flag switched INSIDE the pattern, with and without start anchors:
	// a case-insensitive literal followed by a case-sensitive one (and the
	// reverse) - first-character sets of the two differ only by case (added after
	// a seeded change in the one-pass classification of \A-anchored patterns with
	// a (?i) literal was missed)
	var lits []string
	for _, l := range []string{"a", "A", "b"} {
		for _, q := range []string{"", "*", "?", "+", "*?"} {
			lits = append(lits, l+q)
		}
	}
	for _, st := range []string{"", "^", `\A`} {
		for _, en := range [][2]string{{"", ""}, {`\Z`, `\z`}} {
			for _, x := range lits {
				for _, y := range lits {
					add(work{"D", st + "(?i)" + x + "(?-i)" + y + en[0], st + "(?i)" + x + "(?-i)" + y + en[1], "aAbB", 4})
					add(work{"D", st + x + "(?i)" + y + en[0], st + x + "(?i)" + y + en[1], "aAbB", 4})
				}
			}
		}
	}
	return ws
}

var subjCache sync.Map

func subjects(alpha string, maxlen int) []string {
	key := fmt.Sprint(alpha, maxlen)
	if v, ok := subjCache.Load(key); ok {
		return v.([]string)
	}
	out := []string{""}
	prev := []string{""}
	for l := 1; l <= maxlen; l++ {
		var cur []string
		for _, p := range prev {
			for i := 0; i < len(alpha); i++ {
				cur = append(cur, p+alpha[i:i+1])
			}
		}
		out = append(out, cur...)
		prev = cur
	}
	subjCache.Store(key, out)
	return out
}

// ---------------------------------------------------------------- oracle

type failCase struct {
	Kind    string `json:"kind"` // "match" | "compile"
	Pattern string `json:"pattern"`
	Go      string `json:"go,omitempty"`
	Subject string `json:"subject"`
}

func spans(cap *regex.Captures, n int) []int {
	out := make([]int, 0, 2*n+2)
	for i := 0; i < 2*n+2; i++ {
		out = append(out, int(cap[i]))
	}
	return out
}

// normalise a Go submatch index slice to n+1 groups; shift==1 for the wrapper
// patterns, where Go group 1 is the whole match of R and R's group k is k+1
func goSpans(m []int, n, shift int) []int {
	out := make([]int, 0, 2*n+2)
	for k := 0; k <= n; k++ {
		out = append(out, m[2*(k+shift)], m[2*(k+shift)+1])
	}
	return out
}

func eqInts(a, b []int) bool {
	if len(a) != len(b) {
		return false
	}
	for i := range a {
		if a[i] != b[i] {
			return false
		}
	}
	return true
}

type compiled struct {
	w     work
	pat   regex.Pattern
	n     int              // groups
	re    *regexp.Regexp   // R
	first []*regexp.Regexp // \A(?s:.{i}.*?)(R)
	fixed []*regexp.Regexp // \A(?s:.{j})(R)
}

func compilePat(c *lib.Ctx, w work) *compiled {
	cp := &compiled{w: w, n: ngroups(w.Sun)}
	if e := lib.Try(func() { cp.pat = regex.Compile(w.Sun) }); e != nil {
		c.Fail("", failCase{"compile", w.Sun, w.Go, ""}, "Compile(%q) panicked: %v (pattern is in the common subset and must compile)", w.Sun, lib.PanicText(e))
		return nil
	}
	var err error
	if cp.re, err = regexp.Compile(w.Go); err != nil {
		lib.Infra("generator produced a pattern Go rejects: %q: %v", w.Go, err)
	}
	for i := 0; i <= w.Len; i++ {
		cp.first = append(cp.first, regexp.MustCompile(fmt.Sprintf(`\A(?s:.{%d}.*?)(%s)`, i, goBody(w.Go))))
		cp.fixed = append(cp.fixed, regexp.MustCompile(fmt.Sprintf(`\A(?s:.{%d})(%s)`, i, goBody(w.Go))))
	}
	return cp
}

// goBody moves a leading (?i) inside the wrapper group: "((?i)R)" is valid Go
func goBody(p string) string { return p }

const classLastMatchPrefix = "lastmatch-start-after-pos"

// failClass reports a classified failure. It returns true when the caller may
// go on judging the same case (the class is a listed known finding, or it is
// ignored for development through VERIF_DEV_IGNORE=class,class).
func failClass(c *lib.Ctx, class string, cs any, format string, a ...any) bool {
	for _, ig := range strings.Split(os.Getenv("VERIF_DEV_IGNORE"), ",") {
		if ig == class {
			c.Count("dev_ignored:"+class, 1)
			return true
		}
	}
	return c.Fail(class, cs, format, a...)
}

// checkOne judges one (pattern, subject); returns number of comparisons made.
func checkOne(c *lib.Ctx, cp *compiled, s string) int {
	w := cp.w
	n := cp.n
	evals := 0
	fail := func(api string, got, want any) {
		c.Fail("", failCase{"match", w.Sun, w.Go, s}, "pattern %q subject %q: %s gave %v, reference (Go regexp %q) gives %v",
			w.Sun, s, api, got, w.Go, want)
	}
	var cap regex.Captures
	// Match with captures
	m := cp.re.FindStringSubmatchIndex(s)
	ok := cp.pat.Match(s, &cap)
	evals++
	if ok != (m != nil) {
		fail("Match(s,&cap)", ok, m != nil)
		return evals
	}
	if ok {
		if got, want := spans(&cap, n), goSpans(m, n, 0); !eqInts(got, want) {
			fail("Match(s,&cap) spans", got, want)
			return evals
		}
	}
	if got := cp.pat.Match(s, nil); got != (m != nil) {
		fail("Match(s,nil)", got, m != nil)
	}
	if got := cp.pat.Matches(s); got != (m != nil) {
		fail("Matches(s)", got, m != nil)
	}
	evals += 2
	// FirstMatch from every start index
	for i := 0; i <= len(s); i++ {
		gm := cp.first[i].FindStringSubmatchIndex(s)
		ok := cp.pat.FirstMatch(s, i, &cap)
		evals++
		if ok != (gm != nil) {
			fail(fmt.Sprintf("FirstMatch(s,%d,&cap)", i), ok, gm != nil)
			return evals
		}
		if ok {
			if got, want := spans(&cap, n), goSpans(gm, n, 1); !eqInts(got, want) {
				fail(fmt.Sprintf("FirstMatch(s,%d,&cap) spans", i), got, want)
				return evals
			}
		}
		if got := cp.pat.FirstMatch(s, i, nil); got != (gm != nil) {
			fail(fmt.Sprintf("FirstMatch(s,%d,nil)", i), got, gm != nil)
			return evals
		}
	}
	// LastMatch from every index: the largest j <= i with a match starting exactly at j
	fixed := make([][]int, len(s)+1)
	for j := 0; j <= len(s); j++ {
		fixed[j] = cp.fixed[j].FindStringSubmatchIndex(s)
	}
	for i := 0; i <= len(s); i++ {
		var want []int
		for j := i; j >= 0; j-- {
			if fixed[j] != nil {
				want = goSpans(fixed[j], n, 1)
				break
			}
		}
		ok := cp.pat.LastMatch(s, i, &cap)
		evals++
		if ok && int(cap[0]) > i {
			// Precisely classified defect candidate: Pattern.match does not
			// honour its `fixed` argument (it still skips forward to the
			// literal prefix and still adds new start threads while older
			// threads are alive), so LastMatch returns a match that STARTS
			// AFTER the requested position i.
			if !failClass(c, classLastMatchPrefix, failCase{"match", w.Sun, w.Go, s},
				"pattern %q subject %q: LastMatch(s,%d,&cap) returned a match starting at %d > %d (reference: %v)",
				w.Sun, s, i, cap[0], i, want) {
				return evals
			}
			continue
		}
		if ok != (want != nil) {
			fail(fmt.Sprintf("LastMatch(s,%d,&cap)", i), ok, want != nil)
			return evals
		}
		if ok {
			if got := spans(&cap, n); !eqInts(got, want) {
				fail(fmt.Sprintf("LastMatch(s,%d,&cap) spans", i), got, want)
				return evals
			}
		}
	}
	return evals
}

// ---------------------------------------------------------------- (D) totality of Compile/Match on the whole syntax

const patAlpha = `a()[]^|*?+\-.$:iq`

var totalSubjects = []string{"", "a", "aa", "ba a", "(a)", "q:i", "a\nb", "\\", "-^$"}

func checkTotal(c *lib.Ctx, p string) {
	var pat regex.Pattern
	e := lib.Try(func() { pat = regex.Compile(p) })
	if e != nil {
		if str, ok := e.(string); ok && strings.HasPrefix(str, "regex: ") {
			c.Distinct("D:" + str)
			return
		}
		c.Fail("", failCase{"compile", p, "", ""}, "Compile(%q) panicked with %T %v; only the documented \"regex: …\" error is allowed", p, e, lib.PanicText(e))
		return
	}
	for _, s := range totalSubjects {
		var cap regex.Captures
		var ok1, ok2 bool
		if e := lib.Try(func() {
			ok1 = pat.Match(s, &cap)
			ok2 = pat.Match(s, nil)
			for i := 0; i <= len(s); i++ {
				pat.FirstMatch(s, i, &cap)
				pat.LastMatch(s, i, &cap)
			}
		}); e != nil {
			c.Fail("", failCase{"total", p, "", s}, "pattern %q subject %q: matching panicked: %v", p, s, lib.PanicText(e))
			return
		}
		if ok1 != ok2 {
			c.Fail("", failCase{"total", p, "", s}, "pattern %q subject %q: Match with captures = %v but without = %v", p, s, ok1, ok2)
			return
		}
		if ok1 && !(0 <= cap[0] && cap[0] <= cap[1] && int(cap[1]) <= len(s)) {
			c.Fail("", failCase{"total", p, "", s}, "pattern %q subject %q: match span %d,%d outside the subject", p, s, cap[0], cap[1])
			return
		}
	}
}

// ---------------------------------------------------------------- watchdog

type watchdog struct {
	mu   sync.Mutex
	cur  map[int]string
	seen map[int]time.Time
}

var wd = &watchdog{cur: map[int]string{}, seen: map[int]time.Time{}}
var wdOff atomic.Bool

func (w *watchdog) set(i int, what string) {
	w.mu.Lock()
	w.cur[i] = what
	w.seen[i] = time.Now()
	w.mu.Unlock()
}

func (w *watchdog) clear(i int) {
	w.mu.Lock()
	delete(w.cur, i)
	delete(w.seen, i)
	w.mu.Unlock()
}

func (w *watchdog) run(c *lib.Ctx) {
	for !wdOff.Load() {
		time.Sleep(2 * time.Second)
		w.mu.Lock()
		for i, t := range w.seen {
			if time.Since(t) > 120*time.Second {
				what := w.cur[i]
				w.mu.Unlock()
				c.Fail("", failCase{"hang", what, "", ""}, "work item %q did not finish within 120 s (needs milliseconds): hang", what)
				fmt.Printf("VIOLATION property=C37 hang on %q\n", what)
				os.Exit(1)
			}
		}
		w.mu.Unlock()
	}
}

// ---------------------------------------------------------------- run

func run(c *lib.Ctx) {
	go wd.run(c)
	defer wdOff.Store(true)
	ws := buildWork(c)
	fam := map[string]int{}
	for _, w := range ws {
		fam[w.Fam]++
	}
	c.Set("patterns_per_family", fam)
	c.Set("patterns", len(ws))
	var specialMu sync.Mutex
	special := map[string]int{}
	c.Par(len(ws), func(i int) {
		w := ws[i]
		wd.set(i, w.Sun)
		defer wd.clear(i)
		cp := compilePat(c, w)
		if cp == nil {
			return
		}
		// which matcher path the compiled pattern takes (coverage information only)
		kind := progKind(cp.pat)
		specialMu.Lock()
		special[kind]++
		specialMu.Unlock()
		subs := subjects(w.Alpha, w.Len)
		ev, matched := 0, 0
		for _, s := range subs {
			ev += checkOne(c, cp, s)
			if cp.re.MatchString(s) {
				matched++
			}
			if c.Stopped() {
				break
			}
		}
		c.Eval(ev)
		// a pattern is non-trivial when it matches some but not all subjects,
		// or has a group (captures judged); patterns are distinct by construction
		if (matched > 0 && matched < len(subs)) || cp.n > 0 {
			c.Nontrivial(1)
		}
		if i%1009 == 0 {
			s := subs[(i*7+3)%len(subs)]
			c.Sample(map[string]any{"pattern": w.Sun, "go": w.Go, "subject": s,
				"go_result": fmt.Sprint(cp.re.FindStringSubmatchIndex(s)), "subjects": len(subs)})
		}
	})
	c.Set("matcher_paths", special)

	// (D)
	maxLen := lib.Pick(c, 4, 5)
	var all []string
	prev := []string{""}
	for l := 1; l <= maxLen; l++ {
		var cur []string
		for _, p := range prev {
			for k := 0; k < len(patAlpha); k++ {
				cur = append(cur, p+patAlpha[k:k+1])
			}
		}
		all = append(all, cur...)
		prev = cur
	}
	c.Set("totality_patterns", len(all))
	const chunk = 2000
	nchunks := (len(all) + chunk - 1) / chunk
	c.Par(nchunks, func(ci int) {
		lo, hi := ci*chunk, min((ci+1)*chunk, len(all))
		wd.set(-1-ci, "totality chunk starting at "+all[lo])
		defer wd.clear(-1 - ci)
		for _, p := range all[lo:hi] {
			wd.set(-1-ci, p)
			checkTotal(c, p)
		}
		c.Eval(hi - lo)
	})
}

// progKind names the matcher path from the first opcode (numbers from
// util/regex/prog.go; used for coverage reporting only, never for verdicts).
func progKind(p regex.Pattern) string {
	if len(p) == 0 {
		return "empty"
	}
	switch p[0] {
	case 18:
		return "onePass"
	case 21:
		return "literalSubstr"
	case 22:
		return "literalPrefix"
	case 23:
		return "literalSuffix"
	case 24:
		return "literalEqual"
	case 25:
		return "prefix+nfa"
	}
	return "nfa"
}

func replay(c *lib.Ctx, raw json.RawMessage) {
	var fc failCase
	if err := json.Unmarshal(raw, &fc); err != nil {
		lib.Infra("bad case: %v", err)
	}
	if fc.Go == "" {
		checkTotal(c, fc.Pattern)
		return
	}
	cp := compilePat(c, work{"replay", fc.Pattern, fc.Go, "", max(len(fc.Subject), 1)})
	if cp != nil {
		checkOne(c, cp, fc.Subject)
	}
}

func main() {
	lib.Main(lib.Spec{
		ID:    "C37",
		Level: "exploration",
		Rule: "every pattern of the common-subset grammar up to the size bound (families A structure, B classes, C ignore-case) x every subject string over the family's alphabet up to the length bound, " +
			"each judged through Match/Matches/FirstMatch(every start)/LastMatch(every start) against Go regexp; evaluations = API results compared (+ totality patterns); " +
			"a pattern (distinct by construction) is non-trivial when it matches some but not all subjects or has a capture group; plus distinct compile error texts of the totality part",
		Assumptions: []string{
			"Go regexp (leftmost-first) is the trusted reference engine on the common subset",
			"common subset fixed syntactically: atoms a b . [..] [^..] \\d \\w \\s \\D \\W \\S (..), concatenation, |, * + ? *? +? ??, ^ $ \\A \\Z (printed \\z for Go) at sequence ends, optional (?i) prefix; subjects contain no \\r/\\n",
			"FirstMatch(s,i)/LastMatch(s,i) are modelled with the Go patterns \\A(?s:.{i}.*?)(R) and \\A(?s:.{j})(R)",
			"hang detection is a 120 s watchdog per pattern (work needs milliseconds)",
		},
		QuickBudget:    120,
		ThoroughBudget: 1200,
		Run:            run,
		Replay:         replay,
	})
}
