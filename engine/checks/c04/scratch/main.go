package main

import (
	"fmt"
	"time"

	"github.com/apmckinlay/gsuneido/core"
	"github.com/apmckinlay/gsuneido/db19"
	"github.com/apmckinlay/gsuneido/db19/stor"
	"github.com/apmckinlay/gsuneido/dbms/query"
)

func admin(db *db19.Database, s string) {
	defer func() {
		if e := recover(); e != nil {
			fmt.Println("admin", s, "=>", e)
		}
	}()
	query.DoAdmin(db, s, nil)
}

func out(db *db19.Database, table string, vals ...string) {
	ut := db.NewUpdateTran()
	var rb core.RecordBuilder
	for _, v := range vals {
		rb.Add(core.SuStr(v))
	}
	ut.Output(nil, table, rb.Build())
	if s := ut.Complete(); s != "" {
		fmt.Println("commit failed", s)
	}
}

func show(db *db19.Database, what string) {
	rt := db.NewReadTran()
	fmt.Print(what, ": tables:")
	for _, ts := range rt.GetAllSchema() {
		fmt.Print(" ", ts.Table)
	}
	fmt.Print(" infos:")
	for _, ti := range rt.GetAllInfo() {
		fmt.Print(" ", ti.Table, "/", ti.Nrows)
	}
	fmt.Println(" views:", rt.GetAllViews())
}

func main() {
	db19.MakeSuTran = func(ut *db19.UpdateTran) *core.SuTran { return core.NewSuTran(nil, true) }
	st := stor.HeapStor(8192)
	db := db19.CreateDb(st)
	db19.StartConcur(db, time.Hour)
	t0 := time.Now()
	admin(db, "view v1 = t")
	db.Persist()
	admin(db, "view v2 = t")
	db.Persist()
	admin(db, "create t (a,b) key(a)")
	db.Persist()
	out(db, "t", "x", "y")
	db.Persist()
	show(db, "before drop")
	admin(db, "drop t")
	show(db, "after drop")
	db.Persist()
	db.Close()
	fmt.Println("elapsed", time.Since(t0))
	db2, err := db19.OpenDbStor(st, stor.Update, true)
	if err != nil {
		fmt.Println("open:", err)
		return
	}
	show(db2, "after reopen")
	db19.StartConcur(db2, time.Hour)
	fmt.Println("check:", db2.Check(true))
	rt := db2.NewReadTran()
	fmt.Println("GetInfo(t) != nil:", rt.GetInfo("t") != nil)
	db2.Close()
}
