package main

import (
	"fmt"
	"time"
	"strings"

	"verif/model/dbmodel"
	"verif/model/dbmodel/drive"
)

type M = map[string]string

func req(kind, table, cols string, idx ...dbmodel.Index) drive.Event {
	r := dbmodel.Req{Kind: kind, Table: table, Idx: idx}
	if cols == "-" {
		r.NoCols = true
	} else if cols != "" {
		r.Cols = strings.Split(cols, ",")
	} else {
		r.NoCols = true
	}
	return drive.Admin(r)
}
func ix(mode byte, cols string) dbmodel.Index { return dbmodel.Index{Mode: mode, Cols: strings.Split(cols, ",")} }
func ins(table string, rows ...M) drive.Event {
	var ops []dbmodel.RowOp
	for _, r := range rows {
		ops = append(ops, dbmodel.RowOp{Kind: "insert", Table: table, Row: r})
	}
	return drive.Tx(ops...)
}
func upd(k string, set M) drive.Event {
	return drive.Tx(dbmodel.RowOp{Kind: "update", Table: "a", Row: M{"k": k}, Set: set})
}
func del(k string) drive.Event {
	return drive.Tx(dbmodel.RowOp{Kind: "delete", Table: "a", Row: M{"k": k}})
}

func main() {
	base := []drive.Event{req("create", "a", "k,x,y", ix('k', "k"), ix('i', "x")), ins("a", M{"k": "1", "x": "p", "y": "q"}, M{"k": "2", "x": "p"}), drive.Persist()}
	variants := [][]drive.Event{
		append(append([]drive.Event{}, base...), drive.Reopen(), upd("2", M{"y": "s"}), req("alter_create", "a", "w", ix('u', "w")), del("2")),
		append(append([]drive.Event{}, base...), upd("2", M{"y": "s"}), req("alter_create", "a", "w", ix('u', "w")), del("2")),
		append(append([]drive.Event{}, base...), upd("2", M{"y": "s"}), req("alter_create", "a", "w", ix('i', "w")), del("2")),
		append(append([]drive.Event{}, base...), upd("2", M{"y": "s"}), req("alter_create", "a", "-", ix('i', "y")), del("2")),
		append(append([]drive.Event{}, base...), req("alter_create", "a", "w", ix('u', "w")), del("2")),
	}
	for i, evs := range variants {
		restore := drive.Quiet()
		s, bad, msg := drive.Replay(drive.NewHeap, evs)
		if bad >= 0 {
			restore()
			fmt.Println(i, "replay mismatch", msg)
			continue
		}
		d1 := s.Compare()
		if i < 2 {
			time.Sleep(20 * time.Millisecond)
			rt := s.DB.NewReadTran()
			ti := rt.GetInfo("a")
			fmt.Println("variant", i, "nrows", ti.Nrows, "btreeNrows", ti.BtreeNrows, "deltas", ti.Deltas)
			for j, ov := range ti.Indexes {
				fmt.Println(" index", j, "modified", ov.Modified(), "nlayers", ov.Nlayers(), strings.ReplaceAll(ov.String(), "\n", " | "))
			}
		}
		m := s.Apply(drive.Reopen())
		d2 := s.Compare()
		d3 := s.CheckDb()
		restore()
		fmt.Println(i, drive.EventsText(evs), "\n   live:", d1, "reopen:", m, d2, d3)
		s.Close()
	}
}
