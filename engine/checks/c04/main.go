// C04 Clean shutdown and reopen preserve the database exactly.
//
// Explicit-state breadth-first search over histories of a real db19 database
// (in-memory store, REAL checker/merger pipeline started with StartConcur, so
// persist and the final persist of Close go through concur.go:merger):
//
//  1. main search: ~20 events over tables a, b (foreign key into a) and a
//     view: create / ensure / alter create|drop|rename / rename table / view /
//     drop, committed transactions (insert, update, delete), an abandoned
//     (aborted) transaction, persist, close+reopen; from the empty database
//     and from a populated seed.
//  2. chain driver: persist cycles. Each macro event is one small change (view
//     add/drop = schema chain only, row insert/delete = info chain only,
//     create/drop table = both) followed by a persist or by a clean
//     close+reopen; searched to depth 5 / 12 on top of a table that always
//     exists and to depth 4 / 8 from the empty database, so that the metadata
//     chains of schema and info advance their persist clocks independently,
//     merge chunks (nmerge patterns) and grow to maxChain=7 where they are
//     flattened; tombstones of dropped tables and views have to survive every
//     one of these shapes (finding F3).
//
// States are deduplicated on (reference model state, abstract persistence
// state = dirty flags, persist clocks and chain lengths of the schema and
// info chains, predicted on the model side). Every transition is executed on
// the real implementation by replaying the shortest path on a fresh database.
//
// Oracle for every transition: the event's outcome agrees with the model, the
// live database shows the model state (tables, views, schema text, columns,
// indexes, foreign key links both ways, rows through every index, info
// nrows/size) and then, after a CLEAN CLOSE AND REOPEN, exactly the same is
// observed again (compared with the model AND with what was read immediately
// before closing), Database.Check quick+full pass. An aborted transaction
// leaves no trace.
package main

import (
	"encoding/json"
	"fmt"
	"math/bits"
	"os"
	"sort"
	"strings"

	"github.com/apmckinlay/gsuneido/db19"

	"verif/lib"
	"verif/model/dbmodel"
	"verif/model/dbmodel/drive"
)

type M = map[string]string

func ix(mode byte, cols string, fk ...any) dbmodel.Index {
	x := dbmodel.Index{Mode: mode, Cols: []string{}}
	if cols != "" {
		x.Cols = strings.Split(cols, ",")
	}
	if len(fk) > 0 {
		x.FkTable = fk[0].(string)
		if len(fk) > 1 && fk[1].(string) != "" {
			x.FkCols = strings.Split(fk[1].(string), ",")
		}
		if len(fk) > 2 {
			x.FkMode = fk[2].(int)
		}
	}
	return x
}

func req(kind, table, cols string, idx ...dbmodel.Index) drive.Event {
	r := dbmodel.Req{Kind: kind, Table: table, Idx: idx}
	if cols == "-" {
		r.NoCols = true
	} else if cols != "" {
		r.Cols = strings.Split(cols, ",")
	}
	return drive.Admin(r)
}

func colRename(table, from, to string) drive.Event {
	return drive.Admin(dbmodel.Req{Kind: "alter_rename", Table: table, From: []string{from}, To: []string{to}})
}

func tblRename(from, to string) drive.Event {
	return drive.Admin(dbmodel.Req{Kind: "rename", From: []string{from}, To: []string{to}})
}

func view(name, def string) drive.Event {
	return drive.Admin(dbmodel.Req{Kind: "view", Table: name, Def: def})
}

func drop(name string) drive.Event { return drive.Admin(dbmodel.Req{Kind: "drop", Table: name}) }

func insOps(table string, rows ...M) []dbmodel.RowOp {
	var ops []dbmodel.RowOp
	for _, r := range rows {
		ops = append(ops, dbmodel.RowOp{Kind: "insert", Table: table, Row: r})
	}
	return ops
}

func ins(table string, rows ...M) drive.Event { return drive.Tx(insOps(table, rows...)...) }

func del(table string, key M) drive.Event {
	return drive.Tx(dbmodel.RowOp{Kind: "delete", Table: table, Row: key})
}

func upd(table string, key, set M) drive.Event {
	return drive.Tx(dbmodel.RowOp{Kind: "update", Table: table, Row: key, Set: set})
}

// mainAlphabet: the events of the main search.
func mainAlphabet(thorough bool) []drive.Event {
	evs := []drive.Event{
		req("create", "a", "k,x,y", ix('k', "k"), ix('i', "x")),
		req("create", "b", "k,ak", ix('i', "ak", "a", "k"), ix('k', "k")),
		req("ensure", "a", "z", ix('i', "z")),
		req("alter_drop", "a", "y"),
		colRename("a", "x", "x2"),
		req("alter_drop", "b", "-", ix('i', "ak")),
		tblRename("b", "e"),
		view("v", "a join b"),
		drop("v"),
		drop("b"),
		drop("a"),
		ins("a", M{"k": "1", "x": "p", "y": "q"}, M{"k": "2", "x": "p"}),
		ins("b", M{"k": "1", "ak": "1"}, M{"k": "2"}),
		upd("a", M{"k": "1"}, M{"y": "r", "x": "o"}),
		del("b", M{"k": "1"}),
		drive.Tx(dbmodel.RowOp{Kind: "delete", Table: "a", Row: M{"k": "1"}},
			dbmodel.RowOp{Kind: "delete", Table: "a", Row: M{"k": "2"}}), // empties a (blocked while b references row 1)
		drive.Abandon(insOps("a", M{"k": "9", "x": "u"})...),
		drive.Persist(),
		drive.Reopen(),
		req("create", "c", "k,p", ix('k', "k"), ix('i', "p", "c", "k")), // self-referencing: relinked by its own pass on open
	}
	if thorough {
		evs = append(evs,
			req("alter_create", "a", "w", ix('u', "w")),
			del("a", M{"k": "2"}),
			req("create", "b", "k,ak", ix('k', "k"), ix('i', "ak", "a", "k", dbmodel.Cascade)),
			del("a", M{"k": "1"}), // blocked / cascades into b
		)
	}
	return evs
}

// chainAlphabet: persist cycles. Each macro event is one cheap change that
// touches only the schema chain (view add/drop), only the info chain (row
// insert/delete) or both (create/drop table) followed by either a persist
// or a clean close+reopen (which persists, resets the persist clocks and
// keeps the chunks, so that chains grow to maxChain and are flattened).
// Inapplicable changes are refused / no-ops; their cycle then writes nothing.
func chainAlphabet() []drive.Event {
	changes := []drive.Event{
		view("v", "t"),
		drop("v"),
		req("create", "t", "k", ix('k', "k")),
		drop("t"),
		ins("t", M{"k": "1"}),
		del("t", M{"k": "1"}),
	}
	var evs []drive.Event
	for _, ch := range changes {
		evs = append(evs, drive.Seq(ch, drive.Persist()), drive.Seq(ch, drive.Reopen()))
	}
	return evs
}

// ---- abstract persistence state (dedup key only; never used by the oracle)

type absState struct {
	SClock, SLen, IClock, ILen int
	SDirty, IDirty             bool
	// TDirty: tables with committed row changes since the last persist point.
	// Asym: tables to which an index was added (built from the existing rows)
	// while they had such pending changes: the new index then holds in its
	// stored tree what the older indexes still hold in memory layers.
	TDirty, Asym []string
}

const maxChain = 7

func nmerge(no, clock int) int {
	if no >= maxChain {
		return no
	}
	t := bits.TrailingZeros(^uint(clock))
	if t < no {
		return t
	}
	return no
}

func (a *absState) persist() {
	if a.SDirty {
		a.SLen = a.SLen - nmerge(a.SLen, a.SClock) + 1
		a.SClock++
		a.SDirty = false
	}
	if a.IDirty {
		a.ILen = a.ILen - nmerge(a.ILen, a.IClock) + 1
		a.IClock++
		a.IDirty = false
	}
	a.TDirty, a.Asym = nil, nil
}

func addTo(set []string, x string) []string {
	for _, y := range set {
		if y == x {
			return set
		}
	}
	set = append(append([]string(nil), set...), x)
	sort.Strings(set)
	return set
}

func rename(set []string, from, to string) []string {
	var out []string
	for _, y := range set {
		if y == from {
			y = to
		}
		out = append(out, y)
	}
	sort.Strings(out)
	return out
}

// absStep predicts how an event moves the persistence shape: a successful
// schema change dirties the schema chain (and the info chain unless it is a
// view), a committed data change dirties the info chain, persist writes the
// dirty chains (advancing their clocks and merging chunks per nmerge),
// close+reopen persists and resets the clocks.
func absStep(abs string, ev drive.Event, before, after *dbmodel.DB) string {
	var a absState
	if abs != "" {
		json.Unmarshal([]byte(abs), &a)
	}
	changed := before != after
	switch ev.Kind {
	case "admin":
		r := ev.Req
		if changed {
			a.SDirty = true
			_, wasView := before.Views[r.Table]
			if r.Kind != "view" && !(r.Kind == "drop" && wasView) {
				a.IDirty = true
			}
			switch r.Kind {
			case "alter_create", "ensure":
				bt, at := before.Tables[r.Table], after.Tables[r.Table]
				if bt != nil && len(bt.Rows) > 0 && len(at.Idx) > len(bt.Idx) {
					for _, t := range a.TDirty {
						if t == r.Table {
							a.Asym = addTo(a.Asym, r.Table)
						}
					}
				}
			case "rename":
				a.TDirty = rename(a.TDirty, r.From[0], r.To[0])
				a.Asym = rename(a.Asym, r.From[0], r.To[0])
			case "drop":
				if !wasView {
					a.TDirty = minus(a.TDirty, []string{r.Table})
					a.Asym = minus(a.Asym, []string{r.Table})
				}
			}
		}
	case "tx":
		if changed {
			a.IDirty = true
			for _, op := range ev.Ops {
				a.TDirty = addTo(a.TDirty, op.Table)
			}
		}
	case "persist":
		a.persist()
	case "reopen":
		a.persist()
		a.SClock, a.IClock = 0, 0
	}
	b, _ := json.Marshal(a)
	return string(b)
}

// ---- oracle

// Precise classes of the two genuine defects this check found (see the final
// report / KNOWN_FINDINGS); every other failure has class "".
const (
	// F3: Meta.Drop decides "the info entry was never persisted, no tombstone
	// needed" by comparing the SCHEMA item's creation clock with the INFO
	// chain's clock; a dropped table's row-count entry comes back after reopen.
	classF3 = "dropped-table-info-resurrected"
	// hamt.Chain.WriteChain: when a persist flattens a chain (all chunks
	// merged) and no live item is left, nothing is written and the old chunk
	// stays referenced; everything dropped since reappears after reopen.
	classEmptyFlatten = "drop-all-flatten-keeps-old-chunk"
	// Meta.Persist decides per table whether its indexes have to be saved by
	// looking at the first index only; an index built over existing, not yet
	// persisted rows (alter create / ensure on a table with data) then holds
	// changes the first index does not, and they are never written.
	classStaleBuilt = "built-index-changes-not-persisted"
)

type failCase struct {
	Events []drive.Event `json:"events"`
	Text   []string      `json:"text"`
}

func minus(a, b []string) []string {
	in := map[string]bool{}
	for _, x := range b {
		in[x] = true
	}
	var out []string
	for _, x := range a {
		if !in[x] {
			out = append(out, x)
		}
	}
	return out
}

// emptyAtPersistPoint replays the history on the model alone (with the
// predicted persistence shape) and reports whether at some persist point
// (persist event, close+reopen, or the final close) a dirty chain was
// FLATTENED (all its chunks merged: nmerge == number of chunks > 0) while it
// had no live item left: the schema chain (no table and no view) resp. the
// info chain (no table). That is the trigger of the empty-flatten defect.
func emptyAtPersistPoint(path []drive.Event) (schemaEmpty, infoEmpty bool) {
	m := dbmodel.New()
	abs := ""
	point := func() {
		var a absState
		if abs != "" {
			json.Unmarshal([]byte(abs), &a)
		}
		if a.SDirty && a.SLen > 0 && nmerge(a.SLen, a.SClock) == a.SLen && len(m.Tables) == 0 && len(m.Views) == 0 {
			schemaEmpty = true
		}
		if a.IDirty && a.ILen > 0 && nmerge(a.ILen, a.IClock) == a.ILen && len(m.Tables) == 0 {
			infoEmpty = true
		}
	}
	for _, ev := range drive.Flatten(path) {
		before := m
		switch ev.Kind {
		case "admin":
			c := m.Clone()
			if c.Admin(*ev.Req) == nil && c.Canon() != m.Canon() {
				m = c
			}
		case "tx":
			c := m.Clone()
			if c.Tx(ev.Ops) == nil && c.Canon() != m.Canon() {
				m = c
			}
		case "persist", "reopen":
			point()
		}
		abs = absStep(abs, ev, before, m)
	}
	point() // final close
	return
}

// predictedShape replays the history through absStep (coverage sanity only).
func predictedShape(path []drive.Event) absState {
	m := dbmodel.New()
	abs := ""
	for _, ev := range drive.Flatten(path) {
		before := m
		switch ev.Kind {
		case "admin":
			c := m.Clone()
			if c.Admin(*ev.Req) == nil && c.Canon() != m.Canon() {
				m = c
			}
		case "tx":
			c := m.Clone()
			if c.Tx(ev.Ops) == nil && c.Canon() != m.Canon() {
				m = c
			}
		}
		abs = absStep(abs, ev, before, m)
	}
	var a absState
	if abs != "" {
		json.Unmarshal([]byte(abs), &a)
	}
	return a
}

// builtIndexTables replays the history on the model alone and returns the
// tables to which an index was added while they held rows (the index is then
// built from the existing data: Database.buildIndexes).
func builtIndexTables(path []drive.Event) map[string]bool {
	m := dbmodel.New()
	built := map[string]bool{}
	for _, ev := range drive.Flatten(path) {
		switch ev.Kind {
		case "admin":
			r := ev.Req
			t := m.Tables[r.Table]
			hadRows := t != nil && len(t.Rows) > 0
			nidx := 0
			if t != nil {
				nidx = len(t.Idx)
			}
			if m.Admin(*r) == nil && hadRows && (r.Kind == "alter_create" || r.Kind == "ensure") {
				if t2 := m.Tables[r.Table]; t2 != nil && len(t2.Idx) > nidx {
					built[r.Table] = true
				}
			}
			if r.Kind == "rename" && m.Tables[r.To[0]] != nil && built[r.From[0]] {
				built[r.To[0]] = true
			}
		case "tx":
			m.Tx(ev.Ops)
		}
	}
	return built
}

// staleBuiltIndex recognises the symptom of the third defect: after the
// reopen everything equals the observation before closing except that, in
// tables to which an index was added over existing rows, indexes other than
// the first deliver other rows than before (changes made after the index was
// built were not written for them).
func staleBuiltIndex(before, after *drive.Obs, path []drive.Event) bool {
	if len(before.Tables) != len(after.Tables) {
		return false
	}
	built := builtIndexTables(path)
	fixed := *after
	fixed.Tables = append([]drive.TableObs(nil), after.Tables...)
	any := false
	for i := range fixed.Tables {
		bt, at := before.Tables[i], fixed.Tables[i]
		if bt.Name != at.Name || len(bt.Idx) != len(at.Idx) || !built[at.Name] {
			continue
		}
		at.Idx = append([]drive.IdxObs(nil), at.Idx...)
		for j := 1; j < len(at.Idx); j++ {
			if fmt.Sprint(at.Idx[j].Rows) != fmt.Sprint(bt.Idx[j].Rows) {
				at.Idx[j].Rows, at.Idx[j].Keys, at.Idx[j].Size = bt.Idx[j].Rows, bt.Idx[j].Keys, bt.Idx[j].Size
				any = true
			}
		}
		fixed.Tables[i] = at
	}
	return any && fixed.Text() == before.Text()
}

// classify computes the precise class of a failed reopen comparison:
// before = observation right before closing (agrees with the model), after =
// observation after reopening.
func classify(before, after *drive.Obs, m *dbmodel.DB, path []drive.Event) string {
	var tabs []string
	for _, t := range after.Tables {
		tabs = append(tabs, t.Name)
	}
	var views []string
	for v := range after.Views {
		views = append(views, v)
	}
	sort.Strings(views)
	exTabs := minus(tabs, m.TableNames())
	exViews := minus(views, m.ViewNames())
	exInfos := minus(after.InfoNames, m.TableNames())
	if len(exTabs)+len(exViews)+len(exInfos) == 0 {
		if staleBuiltIndex(before, after, path) {
			return classStaleBuilt
		}
		return ""
	}
	// is resurrection the ONLY difference? remove the resurrected items
	c := drive.Obs{Views: map[string]string{}, Err: after.Err}
	for _, t := range after.Tables {
		if m.Tables[t.Name] != nil {
			c.Tables = append(c.Tables, t)
		}
	}
	c.InfoNames = minus(after.InfoNames, exInfos)
	for v, d := range after.Views {
		if _, ok := m.Views[v]; ok {
			c.Views[v] = d
		}
	}
	if c.Text() != before.Text() {
		return ""
	}
	schemaEmpty, infoEmpty := emptyAtPersistPoint(path)
	if len(exTabs)+len(exViews) > 0 {
		if schemaEmpty && (len(minus(exInfos, exTabs)) == 0 || infoEmpty) {
			return classEmptyFlatten
		}
		return ""
	}
	// only row-count (info) entries of dropped tables came back
	if infoEmpty {
		return classEmptyFlatten
	}
	return classF3
}

// judge: live comparison, then clean close + reopen and the same comparison
// again (against the model and against the observation made right before
// closing), then the database's own checks.
func judge(c *lib.Ctx) func(s *drive.Sys, path []drive.Event, changed bool) []drive.Violation {
	return func(s *drive.Sys, path []drive.Event, changed bool) []drive.Violation {
		var vs []drive.Violation
		last := path[len(path)-1]
		where := "after " + last.String()
		live := drive.Observe(s.DB)
		liveDiffs := drive.CompareObs(live, s.M, drive.CompareOpts{})
		if len(liveDiffs) > 0 {
			// a reopen inside the path (or a live operation) already went wrong
			class := ""
			if s.Before != nil && len(drive.CompareObs(s.Before, s.M, drive.CompareOpts{})) == 0 {
				class = classify(s.Before, live, s.M, s.Log)
			}
			for _, d := range liveDiffs {
				vs = append(vs, drive.Violation{Class: class, Msg: where + " (live): " + d})
			}
			return vs
		}
		recordShape(c, s.DB)
		if !s.Tainted {
			so, _, sc, io, _, ic := s.DB.GetState().Meta.VerifChainShape()
			if p := predictedShape(s.Log); p.SLen != so || p.SClock != sc || p.ILen != io || p.IClock != ic {
				c.Count("shape_prediction_differs_from_real_chain_shape", 1) // affects deduplication only
			} else {
				c.Count("shape_prediction_confirmed", 1)
			}
		}
		if m := s.Apply(drive.Reopen()); m != "" {
			return append(vs, drive.Violation{Msg: where + ": " + m})
		}
		after := drive.Observe(s.DB)
		diffs := drive.CompareObs(after, s.M, drive.CompareOpts{})
		class := ""
		if len(diffs) > 0 {
			class = classify(s.Before, after, s.M, s.Log)
		}
		for _, d := range diffs {
			vs = append(vs, drive.Violation{Class: class, Msg: where + " and clean close + reopen: " + d})
		}
		if len(diffs) == 0 && s.Before.Text() != after.Text() {
			vs = append(vs, drive.Violation{Msg: where + ": the database reads differently after clean close + reopen:\nbefore:\n" +
				s.Before.Text() + "after:\n" + after.Text()})
		}
		for _, d := range s.CheckDb() {
			vs = append(vs, drive.Violation{Class: class, Msg: where + " and clean close + reopen: " + d})
		}
		return vs
	}
}

// newSys: a fresh database whose close+reopen events are watched: a reopen
// that disagrees with the model taints the rest of the path (see drive.Sys).
func newSys() *drive.Sys {
	s := drive.NewHeap()
	s.OnReopen = func(s *drive.Sys) (string, bool) {
		after := drive.Observe(s.DB)
		if len(drive.CompareObs(after, s.M, drive.CompareOpts{})) == 0 {
			return "", false
		}
		return classify(s.Before, after, s.M, s.Log), true
	}
	return s
}

// recordShape counts the distinct real chain shapes reached (coverage only).
func recordShape(c *lib.Ctx, db *db19.Database) {
	so, sa, sc, io, ia, ic := db.GetState().Meta.VerifChainShape()
	c.Count(fmt.Sprintf("schema_chain_len_%d", so), 1)
	c.Count(fmt.Sprintf("info_chain_len_%d", io), 1)
	c.Distinct(fmt.Sprint("shape", so, sa, sc, io, ia, ic))
	if sc > 0 && so == 1 && sc > 1 || ic > 1 && io == 1 {
		c.Count("states_right_after_a_full_flatten", 1)
	}
}

func run(c *lib.Ctx) {
	defer drive.Quiet()()
	// development aid: VERIF_ASSUME_KNOWN=class,class counts failures of these
	// classes instead of reporting them (as a KNOWN_FINDINGS entry would), so
	// that the rest of the search can be inspected on the unchanged tree
	assume := map[string]bool{}
	for _, cl := range strings.Split(os.Getenv("VERIF_ASSUME_KNOWN"), ",") {
		if cl != "" {
			assume[cl] = true
		}
	}
	fail := func(v drive.Violation, path []drive.Event) {
		if v.Class == "" && strings.Contains(v.Msg, "reopen after clean close failed") {
			// the stale chunk kept by the empty-flatten defect can also make the
			// reopened metadata inconsistent (a resurrected schema entry without
			// its info entry), so that the cleanly closed database is refused
			if se, ie := emptyAtPersistPoint(path); se || ie {
				v.Class = classEmptyFlatten
			}
		}
		if v.Class != "" && assume[v.Class] {
			c.Count("assumed_known_"+v.Class, 1)
			return
		}
		c.Fail(v.Class, failCase{Events: path, Text: drive.EventsText(path)}, "%s\n  history: %s",
			v.Msg, strings.Join(drive.EventsText(path), " ; "))
	}
	evs := mainAlphabet(!c.Quick())
	c.Set("main_alphabet", drive.EventsText(evs))
	// 1a. main search from the empty database
	d1 := lib.Pick(c, 4, 5)
	x1 := &drive.Explorer{C: c, Events: evs, MaxDepth: d1, New: newSys, Abs: absStep, Judge: judge(c), Fail: fail}
	x1.Run(nil)
	// 1b. from a populated seed with persisted history and one reopen
	seed := []drive.Event{evs[0], evs[1], evs[11], evs[12], drive.Persist(), view("v", "a join b"),
		drive.Reopen(), upd("a", M{"k": "2"}, M{"y": "s"})}
	d2 := lib.Pick(c, 3, 4)
	x2 := &drive.Explorer{C: c, Events: evs, MaxDepth: d2, New: newSys, Abs: absStep, Judge: judge(c), Fail: fail}
	x2.Run(seed)
	// 2. chain driver: persist cycles, on top of a table that always exists
	// (so that the chains are never empty) and from the empty database
	cevs := chainAlphabet()
	keep := []drive.Event{req("create", "keep", "k", ix('k', "k")), ins("keep", M{"k": "1"})}
	d3 := lib.Pick(c, 5, 12)
	x3 := &drive.Explorer{C: c, Events: cevs, MaxDepth: d3, New: newSys, Abs: absStep, Judge: judge(c), Fail: fail,
		MaxTransitions: lib.Pick(c, 40000, 300000)}
	x3.Run(keep)
	d4 := lib.Pick(c, 4, 8)
	x4 := &drive.Explorer{C: c, Events: cevs, MaxDepth: d4, New: newSys, Abs: absStep, Judge: judge(c), Fail: fail,
		MaxTransitions: lib.Pick(c, 20000, 100000)}
	x4.Run(nil)
	if c.Shard == 0 {
		c.Set("main_depth_from_empty", d1)
		c.Set("main_depth_from_seed", d2)
		c.Set("seed", drive.EventsText(seed))
		c.Set("chain_alphabet", drive.EventsText(cevs))
		c.Set("chain_depth", d3)
		c.Set("states_main_empty", x1.States)
		c.Set("transitions_main_empty", x1.Transitions)
		c.Set("states_main_seed", x2.States)
		c.Set("transitions_main_seed", x2.Transitions)
		c.Set("states_chain", x3.States)
		c.Set("transitions_chain", x3.Transitions)
		c.Set("new_states_per_depth_chain", x3.PerDepth)
		c.Set("chain_depth_from_empty", d4)
		c.Set("states_chain_from_empty", x4.States)
		c.Set("transitions_chain_from_empty", x4.Transitions)
		h := []drive.Event{evs[0], evs[1], evs[11], evs[12], drive.Persist(), evs[3], drive.Reopen()}
		s, _, _ := drive.Replay(newSys, h)
		var tabs []string
		for _, t := range drive.Observe(s.DB).Tables {
			tabs = append(tabs, fmt.Sprintf("%s nrows=%d", t.Schema, t.Nrows))
		}
		sort.Strings(tabs)
		c.Sample(map[string]any{"history": drive.EventsText(h), "observed_after_reopen": tabs, "model": s.M.Canon()})
		s.Close()
	}
}

func replay(c *lib.Ctx, raw json.RawMessage) {
	defer drive.Quiet()()
	var fc failCase
	if err := json.Unmarshal(raw, &fc); err != nil {
		lib.Infra("bad case: %v", err)
	}
	s, bad, msg := drive.Replay(newSys, fc.Events)
	defer s.Close()
	if bad >= 0 {
		c.Fail("", fc, "%s", msg)
		return
	}
	if len(fc.Events) == 0 {
		return
	}
	for _, v := range judge(c)(s, fc.Events, true) {
		c.Fail(v.Class, fc, "%s", v.Msg)
	}
}

func main() {
	lib.Main(lib.Spec{
		ID:    "C04",
		Level: "model_checking",
		Rule: "BFS over event histories (schema changes, committed/aborted transactions, persist, close+reopen); every transition = replay of the shortest path on a fresh real database + one event, " +
			"followed by clean close + reopen and full comparison; evaluations = transitions executed and judged; distinct = reference-model x persistence-shape states plus distinct real chain shapes (hashed)",
		Assumptions: []string{
			"reference model verif/model/dbmodel is the oracle; the abstract persistence state (clocks, chain lengths) is used only to deduplicate states",
			"in-memory store (stor.HeapStor) with the real StartConcur pipeline; file-backed close/reopen is exercised by C05 and C20",
			"bounded to the alphabets and depths reported in coverage",
		},
		QuickBudget: 70, ThoroughBudget: 900,
		Procs: 16,
		Run:   run, Replay: replay,
	})
}
