//go:build verif

package meta

// VerifChainShape exposes the persistence shape of the two metadata chains
// (number of chunks, chunk ages, persist clock) for the C04 check's coverage
// statistics. Read only.
func (m *Meta) VerifChainShape() (schemaOffs int, schemaAges []int, schemaClock int,
	infoOffs int, infoAges []int, infoClock int) {
	return len(m.schema.Offs), m.schema.Ages, m.schema.Clock,
		len(m.info.Offs), m.info.Ages, m.info.Clock
}
