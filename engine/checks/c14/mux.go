package main

// Client-server encodings (dbms/mux/readwrite.go): zig-zag varints, size
// prefixed strings / records / packed values, lists. Everything is written
// through a real WriteBuf (4 kb buffer, flushes, unbuffered large writes)
// onto an in-memory connection, re-assembled by the real connection reader
// (VerifReadAll, overlay export) and read back with the real ReadBuf.

import (
	"bytes"
	"encoding/binary"
	"fmt"
	"math"

	"github.com/apmckinlay/gsuneido/core"
	"github.com/apmckinlay/gsuneido/dbms/mux"

	"verif/lib"
)

type memConn struct {
	bytes.Buffer
	closed int
}

func (m *memConn) Close() error { m.closed++; return nil }

// refZigZag is the reference encoding: Go's encoding/binary signed varint
// (zig-zag + base-128 little endian), the documented format of PutInt64.
func refZigZag(v int64) []byte {
	var b [binary.MaxVarintLen64]byte
	return b[:binary.PutVarint(b[:], v)]
}

// roundTrip sends what put writes as one message and returns a ReadBuf on the
// single re-assembled message.
func roundTrip(put func(wb *mux.WriteBuf)) (rb *mux.ReadBuf, raw []byte, err string) {
	mc := &memConn{}
	wb := mux.VerifNewWriteBuf(mc, 77)
	put(wb)
	wb.EndMsg()
	ids, msgs, e := mux.VerifReadAll(mc)
	if len(msgs) != 1 || ids[0] != 77 {
		return nil, nil, fmt.Sprintf("connection reader delivered %d messages (ids %v, error %q)", len(msgs), ids, e)
	}
	rb = &mux.ReadBuf{}
	rb.SetBuf(msgs[0])
	return rb, msgs[0], ""
}

func checkMuxInt(c *lib.Ctx, v int64) {
	fail := func(format string, a ...any) {
		c.Fail("", kase{Kind: "muxint", V: v}, "mux PutInt64(%d): %s", v, fmt.Sprintf(format, a...))
	}
	var rb *mux.ReadBuf
	var raw []byte
	var err string
	if e := lib.Try(func() {
		rb, raw, err = roundTrip(func(wb *mux.WriteBuf) {
			wb.PutByte(0xee).PutInt64(v).PutByte(0xdd)
			if math.MinInt <= v && v <= math.MaxInt {
				wb.PutInt(int(v))
			}
		})
	}); e != nil {
		fail("panic: %s", lib.PanicText(e))
		return
	}
	if err != "" {
		fail("%s", err)
		return
	}
	ref := refZigZag(v)
	if len(raw) != 2+2*len(ref) || !bytes.Equal(raw[1:1+len(ref)], ref) {
		c.Count("format_differs_from_zigzag_varint", 1) // reported, not demanded by the property
	}
	if e := lib.Try(func() {
		if rb.GetByte() != 0xee {
			fail("leading byte lost")
		}
		if g := rb.GetInt64(); g != v {
			fail("GetInt64 = %d", g)
		}
		if rb.GetByte() != 0xdd {
			fail("GetInt64 did not consume exactly the bytes written")
		}
		if g := rb.GetInt(); int64(g) != v {
			fail("GetInt = %d", g)
		}
		if rb.Remaining() != 0 {
			fail("%d bytes remaining", rb.Remaining())
		}
	}); e != nil {
		fail("panic while reading: %s", lib.PanicText(e))
	}
}

func recFromLens(ls []int) core.Record {
	var b core.RecordBuilder
	for i, l := range ls {
		b.AddRaw(content(l+3*i, l))
	}
	return b.Build()
}

func muxVal(v int64) core.Value {
	switch v {
	case 0:
		return core.SuStr("")
	case 1:
		return core.SuStr("hello\x00world")
	case 2:
		return core.IntVal(-123456789)
	case 3:
		return core.True
	}
	ob := &core.SuObject{}
	ob.Add(core.IntVal(int(v)))
	ob.Add(core.SuStr("x"))
	return ob
}

func checkMuxSeq(c *lib.Ctx, ops []opSpec) {
	fail := func(format string, a ...any) {
		c.Fail("", kase{Kind: "muxseq", Ops: ops}, "mux sequence %v: %s", ops, fmt.Sprintf(format, a...))
	}
	var rb *mux.ReadBuf
	var err string
	if e := lib.Try(func() {
		rb, _, err = roundTrip(func(wb *mux.WriteBuf) {
			wb.PutByte(0xc3) // a message always starts with a command byte (an empty message is not valid)
			for _, o := range ops {
				switch o.Op {
				case "int64":
					wb.PutInt64(o.V)
				case "int":
					wb.PutInt(int(o.V))
				case "bool":
					wb.PutBool(o.V != 0)
				case "byte":
					wb.PutByte(byte(o.V))
				case "str":
					wb.PutStr(content(o.L, o.L))
				case "buf":
					wb.PutBuf(content(o.L+1, o.L))
				case "strs":
					wb.PutStrs(strList(o.Ls))
				case "ints":
					is := make([]int, len(o.Vs))
					for i, v := range o.Vs {
						is[i] = int(v)
					}
					wb.PutInts(is)
				case "rec":
					wb.PutRec(recFromLens(o.Ls))
				case "val":
					wb.PutVal(muxVal(o.V))
				case "result":
					if o.V < 0 {
						wb.PutResult(nil)
					} else {
						wb.PutResult(muxVal(o.V))
					}
				}
			}
		})
	}); e != nil {
		fail("panic while writing: %s", lib.PanicText(e))
		return
	}
	if err != "" {
		fail("%s", err)
		return
	}
	if e := lib.Try(func() {
		if rb.GetByte() != 0xc3 {
			fail("first byte of the message lost")
			return
		}
		for i, o := range ops {
			ok := true
			switch o.Op {
			case "int64":
				ok = rb.GetInt64() == o.V
			case "int":
				ok = int64(rb.GetInt()) == o.V
			case "bool":
				ok = rb.GetBool() == (o.V != 0)
			case "byte":
				ok = rb.GetChar() == byte(o.V)
			case "str":
				ok = rb.GetStr() == content(o.L, o.L)
			case "buf":
				ok = rb.GetN(o.L) == content(o.L+1, o.L)
			case "strs":
				ok = eqStrs(rb.GetStrs(), strList(o.Ls))
			case "ints":
				n := rb.GetInt()
				ok = n == len(o.Vs)
				for j := 0; ok && j < n; j++ {
					ok = int64(rb.GetInt()) == o.Vs[j]
				}
			case "rec":
				ok = rb.GetRec() == recFromLens(o.Ls)
			case "val":
				ok = rb.GetVal().Equal(muxVal(o.V))
			case "result":
				ok = rb.GetBool()
				if ok {
					r := rb.ValueResult()
					if o.V < 0 {
						ok = r == nil
					} else {
						ok = r != nil && r.Equal(muxVal(o.V))
					}
				}
			}
			if !ok {
				fail("item %d (%v) read back differently", i, o)
				return
			}
		}
		if rb.Remaining() != 0 {
			fail("%d bytes left after reading everything back", rb.Remaining())
		}
	}); e != nil {
		fail("panic while reading: %s", lib.PanicText(e))
	}
}

var muxOps = []opSpec{
	{Op: "int64", V: 0}, {Op: "int64", V: -1}, {Op: "int64", V: 63}, {Op: "int64", V: 64}, {Op: "int64", V: -64}, {Op: "int64", V: -65},
	{Op: "int64", V: math.MaxInt64}, {Op: "int64", V: math.MinInt64}, {Op: "int", V: 8191}, {Op: "int", V: -8193},
	{Op: "bool", V: 1}, {Op: "bool", V: 0}, {Op: "byte", V: 0xff}, {Op: "byte", V: 0x80},
	{Op: "str", L: 0}, {Op: "str", L: 1}, {Op: "str", L: 63}, {Op: "str", L: 64}, {Op: "str", L: 8191}, {Op: "str", L: 8192},
	{Op: "strs", Ls: nil}, {Op: "strs", Ls: []int{0, 1, 64}}, {Op: "ints", Vs: nil}, {Op: "ints", Vs: []int64{0, -1, 64, math.MinInt64}},
	{Op: "rec", Ls: nil}, {Op: "rec", Ls: []int{0, 5, 0}}, {Op: "rec", Ls: []int{250, 3}}, {Op: "val", V: 0}, {Op: "val", V: 1}, {Op: "val", V: 9},
	{Op: "result", V: -1}, {Op: "result", V: 2}, {Op: "buf", L: 0}, {Op: "buf", L: 5},
}

// bufPayload is the number of payload bytes the WriteBuf holds before it
// must flush: bufSize (4096) - HeaderSize (9)
const bufPayload = 4096 - mux.HeaderSize - 1 // and the leading command byte

func runMux(c *lib.Ctx, ints []int64) {
	n := len(ints)
	c.Par(len(ints), func(i int) { checkMuxInt(c, ints[i]) })
	// all op sequences of length 1..3 (quick: 1..2 plus all triples of a reduced alphabet)
	var seqs [][]opSpec
	var rec func(alpha []opSpec, maxlen int, prefix []opSpec)
	rec = func(alpha []opSpec, maxlen int, prefix []opSpec) {
		if len(prefix) > 0 {
			seqs = append(seqs, prefix)
		}
		if len(prefix) == maxlen {
			return
		}
		for _, o := range alpha {
			rec(alpha, maxlen, append(prefix[:len(prefix):len(prefix)], o))
		}
	}
	if c.Quick() {
		rec(muxOps, 2, nil)
		var red []opSpec
		for i, o := range muxOps {
			if i%3 == 0 {
				red = append(red, o)
			}
		}
		var all3 [][]opSpec
		save := seqs
		seqs = nil
		rec(red, 3, nil)
		for _, s := range seqs {
			if len(s) == 3 {
				all3 = append(all3, s)
			}
		}
		seqs = append(save, all3...)
	} else {
		rec(muxOps, 3, nil)
	}
	// strings around the buffer / flush boundaries, at every alignment:
	// p single bytes, then a string of length l, then an int
	sizes := []int{bufPayload - 3, bufPayload - 2, bufPayload - 1, bufPayload, bufPayload + 1, 4094, 4095, 4096, 4097,
		2*4096 - 1, 2 * 4096, 16383, 16384, 16385, 65535, 65536, 100_000, 1_000_000}
	pres := []int{0, 1, 2, 3, 100, bufPayload - 4, bufPayload - 3, bufPayload - 2, bufPayload - 1, bufPayload, bufPayload + 1}
	if !c.Quick() {
		for l := bufPayload - 40; l <= bufPayload+40; l++ {
			sizes = append(sizes, l)
		}
		for p := 4; p < 40; p++ {
			pres = append(pres, p, bufPayload-p)
		}
	}
	for _, p := range pres {
		for _, l := range sizes {
			var ops []opSpec
			if p > 0 {
				ops = append(ops, opSpec{Op: "buf", L: p})
			}
			ops = append(ops, opSpec{Op: "str", L: l}, opSpec{Op: "int", V: 12345}, opSpec{Op: "str", L: 7})
			seqs = append(seqs, ops)
		}
	}
	// two large items in one message
	for _, a := range []int{4000, 4096, 5000, 300_000} {
		for _, b := range []int{87, 4087, 4096, 300_000} {
			seqs = append(seqs, []opSpec{{Op: "str", L: a}, {Op: "rec", Ls: []int{b, 0, 1}}, {Op: "bool", V: 1}})
		}
	}
	c.Par(len(seqs), func(i int) { checkMuxSeq(c, seqs[i]) })
	n += len(seqs)
	c.Eval(n)
	c.Nontrivial(n)
	c.Count("mux_cases", n)
	c.Sample(map[string]any{"group": "mux", "sequence": fmt.Sprint(seqs[len(seqs)/2])})
}
