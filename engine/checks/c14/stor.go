package main

// stor.Writer / stor.Reader (fixed width little endian unsigned ints,
// 2-byte-length strings and string lists) and stor.SmallOffset.

import (
	"fmt"

	"github.com/apmckinlay/gsuneido/db19/stor"

	"verif/lib"
)

// opSpec is one write operation of a (replayable) sequence
type opSpec struct {
	Op string  `json:"op"`
	V  int64   `json:"v,omitempty"`  // integer operand
	L  int     `json:"l,omitempty"`  // string length (content = content(L, L))
	Ls []int   `json:"ls,omitempty"` // lengths of a string list / record fields
	Vs []int64 `json:"vs,omitempty"` // list of ints
}

func (o opSpec) String() string {
	switch o.Op {
	case "str", "buf":
		return fmt.Sprintf("%s(len %d)", o.Op, o.L)
	case "strs", "rec":
		return fmt.Sprintf("%s(lens %v)", o.Op, o.Ls)
	case "ints":
		return fmt.Sprintf("ints%v", o.Vs)
	}
	return fmt.Sprintf("%s(%d)", o.Op, o.V)
}

func strList(ls []int) []string {
	if ls == nil {
		return nil
	}
	out := make([]string, len(ls))
	for i, l := range ls {
		out[i] = content(l+i, l)
	}
	return out
}

func eqStrs(a, b []string) bool {
	if len(a) != len(b) {
		return false
	}
	for i := range a {
		if a[i] != b[i] {
			return false
		}
	}
	return true
}

// refLE is the reference encoding: w bytes, least significant first
func refLE(v int64, w int) []byte {
	b := make([]byte, w)
	for i := 0; i < w; i++ {
		b[i] = byte(uint64(v) >> (8 * i))
	}
	return b
}

// checkStorInt: PutW(v) then GetW. In range: exact bytes and value, reader
// empty afterwards. Out of range: must be refused.
func checkStorInt(c *lib.Ctx, w int, v int64) {
	if e := lib.Try(func() { checkStorInt1(c, w, v) }); e != nil {
		c.Fail("", kase{Kind: "storint", W: w, V: v}, "stor Put%d(%d): panic: %s", w, v, lib.PanicText(e))
	}
}

func checkStorInt1(c *lib.Ctx, w int, v int64) {
	fail := func(format string, a ...any) {
		c.Fail("", kase{Kind: "storint", W: w, V: v}, "stor Put%d(%d): %s", w, v, fmt.Sprintf(format, a...))
	}
	inRange := v >= 0 && v < int64(1)<<(8*w)
	buf := make([]byte, 0, 16)
	wr := stor.NewWriter(buf)
	wr.Put1(0x5a)
	e := lib.Try(func() {
		switch w {
		case 1:
			wr.Put1(int(v))
		case 2:
			wr.Put2(int(v))
		case 3:
			wr.Put3(int(v))
		case 4:
			wr.Put4(int(v))
		case 5:
			wr.Put5(v)
		}
	})
	if !inRange {
		if e == nil {
			fail("value outside the %d byte range was accepted", w)
		}
		return
	}
	if e != nil {
		fail("panic: %s", lib.PanicText(e))
		return
	}
	wr.Put1(0xa5)
	if wr.Len() != w+2 {
		fail("Len() = %d want %d", wr.Len(), w+2)
		return
	}
	data := buf[:wr.Len()]
	if string(data[1:1+w]) != string(refLE(v, w)) {
		c.Count("format_differs_from_little_endian", 1) // reported, not demanded by the property
	}
	rd := stor.NewReader(data)
	rd.Get1()
	var g int64
	switch w {
	case 1:
		g = int64(rd.Get1())
	case 2:
		g = int64(rd.Get2())
	case 3:
		g = int64(rd.Get3())
	case 4:
		g = int64(rd.Get4())
	case 5:
		g = rd.Get5()
	}
	if g != v || rd.Remaining() != 1 || rd.Get1() != 0xa5 {
		fail("read back %d, remaining %d", g, rd.Remaining())
	}
}

func checkSmallOffset(c *lib.Ctx, u uint64) {
	if e := lib.Try(func() { checkSmallOffset1(c, u) }); e != nil {
		c.Fail("", kase{Kind: "smalloffset", U: u}, "SmallOffset %d: panic: %s", u, lib.PanicText(e))
	}
}

func checkSmallOffset1(c *lib.Ctx, u uint64) {
	fail := func(format string, a ...any) {
		c.Fail("", kase{Kind: "smalloffset", U: u}, "SmallOffset %d: %s", u, fmt.Sprintf(format, a...))
	}
	var b [stor.SmallOffsetLen + 2]byte
	b[0], b[6] = 0x11, 0x22
	stor.WriteSmallOffset(b[1:], u)
	if g := stor.ReadSmallOffset(b[1:]); g != u || b[0] != 0x11 || b[6] != 0x22 {
		fail("Write/Read gave %d (guard bytes %x %x)", g, b[0], b[6])
	}
	a := stor.AppendSmallOffset([]byte{0x33}, u)
	if len(a) != 1+stor.SmallOffsetLen || a[0] != 0x33 || stor.ReadSmallOffset(a[1:]) != u {
		fail("Append/Read gave % x", a)
	}
	if string(a[1:]) != string(refLE(int64(u), 5)) {
		c.Count("format_differs_from_little_endian", 1)
	}
}

// checkStorSeq writes a sequence of items into one Writer and reads them back
// in order; the Reader must be exactly exhausted.
func checkStorSeq(c *lib.Ctx, ops []opSpec) {
	fail := func(format string, a ...any) {
		c.Fail("", kase{Kind: "storseq", Ops: ops}, "stor sequence %v: %s", ops, fmt.Sprintf(format, a...))
	}
	want := 0
	for _, o := range ops {
		switch o.Op {
		case "str":
			want += 2 + o.L
		case "strs":
			want += 2
			for _, l := range o.Ls {
				want += 2 + l
			}
		default:
			want += int(o.Op[3] - '0')
		}
	}
	buf := make([]byte, 0, want)
	wr := stor.NewWriter(buf)
	if e := lib.Try(func() {
		for _, o := range ops {
			switch o.Op {
			case "put1":
				wr.Put1(int(o.V))
			case "put2":
				wr.Put2(int(o.V))
			case "put3":
				wr.Put3(int(o.V))
			case "put4":
				wr.Put4(int(o.V))
			case "put5":
				wr.Put5(o.V)
			case "str":
				s := content(o.L, o.L)
				if stor.LenStr(s) != 2+o.L {
					fail("LenStr = %d", stor.LenStr(s))
				}
				wr.PutStr(s)
			case "strs":
				ss := strList(o.Ls)
				n := 2
				for _, l := range o.Ls {
					n += 2 + l
				}
				if stor.LenStrs(ss) != n {
					fail("LenStrs = %d want %d", stor.LenStrs(ss), n)
				}
				wr.PutStrs(ss)
			}
		}
	}); e != nil {
		fail("panic while writing: %s", lib.PanicText(e))
		return
	}
	if wr.Len() != want {
		fail("Len() = %d want %d", wr.Len(), want)
		return
	}
	rd := stor.NewReader(buf[:want])
	if e := lib.Try(func() {
		for i, o := range ops {
			var ok bool
			switch o.Op {
			case "put1":
				ok = int64(rd.Get1()) == o.V
			case "put2":
				ok = int64(rd.Get2()) == o.V
			case "put3":
				ok = int64(rd.Get3()) == o.V
			case "put4":
				ok = int64(rd.Get4()) == o.V
			case "put5":
				ok = rd.Get5() == o.V
			case "str":
				ok = rd.GetStr() == content(o.L, o.L)
			case "strs":
				g := rd.GetStrs()
				ok = eqStrs(g, strList(o.Ls)) // nil and empty both read back as an empty list
			}
			if !ok {
				fail("item %d (%v) read back differently", i, o)
			}
		}
	}); e != nil {
		fail("panic while reading: %s", lib.PanicText(e))
		return
	}
	if rd.Remaining() != 0 {
		fail("%d bytes left after reading everything back", rd.Remaining())
	}
}

// checkStorStrLens: PutStr for a list of lengths (incl. the 65535 maximum);
// 65536 and more must be refused.
func checkStorStrLens(c *lib.Ctx, lens []int) {
	for _, l := range lens {
		s := content(l, l)
		buf := make([]byte, 0, l+4)
		wr := stor.NewWriter(buf)
		e := lib.Try(func() { wr.PutStr(s).Put1(7) })
		fail := func(format string, a ...any) {
			c.Fail("", kase{Kind: "storstr", Lens: []int{l}}, "stor PutStr(len %d): %s", l, fmt.Sprintf(format, a...))
		}
		if l > 0xffff {
			if e == nil {
				fail("a string longer than 64k-1 was accepted")
			}
			continue
		}
		if e != nil {
			fail("panic: %s", lib.PanicText(e))
			continue
		}
		rd := stor.NewReader(buf[:wr.Len()])
		if g := rd.GetStr(); g != s || rd.Get1() != 7 || rd.Remaining() != 0 {
			fail("read back len %d", len(g))
		}
	}
}

var storOps = []opSpec{
	{Op: "put1", V: 0}, {Op: "put1", V: 255},
	{Op: "put2", V: 0x1234}, {Op: "put2", V: 0xffff},
	{Op: "put3", V: 0xabcdef}, {Op: "put3", V: 0x800000},
	{Op: "put4", V: 0xdeadbeef}, {Op: "put4", V: 1 << 31},
	{Op: "put5", V: 1<<40 - 1}, {Op: "put5", V: 0x8000000000 + 0x7f},
	{Op: "str", L: 0}, {Op: "str", L: 1}, {Op: "str", L: 256},
	{Op: "strs", Ls: nil}, {Op: "strs", Ls: []int{0}}, {Op: "strs", Ls: []int{3, 0, 255, 256}},
}

func runStor(c *lib.Ctx, ints []int64) {
	n := 0
	for _, v := range ints {
		for w := 1; w <= 5; w++ {
			checkStorInt(c, w, v)
			n++
		}
		if v >= 0 && v <= stor.MaxSmallOffset {
			checkSmallOffset(c, uint64(v))
			n++
		}
	}
	// all op sequences of length 1..3
	maxlen := 3
	var rec func(prefix []opSpec)
	rec = func(prefix []opSpec) {
		if len(prefix) > 0 {
			checkStorSeq(c, prefix)
			n++
		}
		if len(prefix) == maxlen {
			return
		}
		for _, o := range storOps {
			rec(append(prefix[:len(prefix):len(prefix)], o))
		}
	}
	rec(nil)
	lens := []int{0, 1, 2, 254, 255, 256, 257, 65534, 65535, 65536, 65537, 70000}
	checkStorStrLens(c, lens)
	n += len(lens)
	// string lists with many / long entries
	for _, ls := range [][]int{{65535}, {65535, 65535}, make([]int, 65535), make([]int, 300)} {
		checkStorSeq(c, []opSpec{{Op: "put1", V: 1}, {Op: "strs", Ls: ls}, {Op: "put2", V: 2}})
		n++
	}
	c.Eval(n)
	c.Nontrivial(n)
	c.Count("stor_cases", n)
	c.Sample(map[string]any{"group": "stor", "sequence": fmt.Sprint(storOps[2], storOps[12], storOps[15])})
}
