package main

// core.RecordBuilder / core.Record.
//
// A record is described by a recSpec: n fields whose sizes follow a small
// pattern, with explicit overrides. Field i holds content(i, size) (a slice of
// a long non-periodic byte pattern), so a wrong offset shows as wrong bytes.
//
// Header classes (documented at the top of record.go): total length < 0x100
// uses 1-byte offsets, < 0x10000 2-byte, else 4-byte. With n fields and D data
// bytes the length is 2+(1+n)+D, 2+2(1+n)+D or 2+4(1+n)+D. The enumeration
// puts the total length on every value +-2 around both boundaries for many n,
// by sizing one filler field, in addition to plain products of sizes.

import (
	"fmt"
	"sort"

	"github.com/apmckinlay/gsuneido/core"

	"verif/lib"
)

type recSpec struct {
	N    int         `json:"n"`
	Pat  int         `json:"pat"`  // size of field i not overridden: 0: 0; 1: 1; 2: i%3; 3: (i*7)%5
	Over map[int]int `json:"over"` // field index -> size
}

func (rs *recSpec) size(i int) int {
	if s, ok := rs.Over[i]; ok {
		return s
	}
	switch rs.Pat {
	case 1:
		return 1
	case 2:
		return i % 3
	case 3:
		return (i * 7) % 5
	}
	return 0
}

func (rs *recSpec) String() string {
	keys := make([]int, 0, len(rs.Over))
	for k := range rs.Over {
		keys = append(keys, k)
	}
	sort.Ints(keys)
	s := fmt.Sprintf("%d fields, size pattern %d", rs.N, rs.Pat)
	for _, k := range keys {
		s += fmt.Sprintf(", field %d: %d bytes", k, rs.Over[k])
	}
	return s
}

type recStats struct {
	class [4]int // records per header class (0 = the empty record)
	n     int
	other int // records whose class/length differs from the documented rule
}

// expected total length by the documented rule
func expLen(n, data int) int {
	switch expClass(n, data) {
	case 0:
		return 1
	case 1:
		return 2 + (1 + n) + data
	case 2:
		return 2 + 2*(1+n) + data
	}
	return 2 + 4*(1+n) + data
}

// expected header class by the documented rule
func expClass(n, data int) int {
	switch {
	case n == 0:
		return 0
	case 2+(1+n)+data < 0x100:
		return 1
	case 2+2*(1+n)+data < 0x10000:
		return 2
	}
	return 3
}

func checkRecord(c *lib.Ctx, rs *recSpec, st *recStats) {
	// a runtime panic while reading a record back is a failure of the case
	if e := lib.Try(func() { checkRecord1(c, rs, st) }); e != nil {
		c.Fail("", kase{Kind: "record", Rec: rs}, "record (%v): panic while reading it back: %s", rs, lib.PanicText(e))
	}
}

func checkRecord1(c *lib.Ctx, rs *recSpec, st *recStats) {
	fail := func(format string, a ...any) {
		c.Fail("", kase{Kind: "record", Rec: rs}, "record (%v): %s", rs, fmt.Sprintf(format, a...))
	}
	n := rs.N
	fields := make([]string, n)
	data := 0
	for i := range fields {
		fields[i] = content(i, rs.size(i))
		data += len(fields[i])
	}
	var rec core.Record
	e := lib.Try(func() {
		var b core.RecordBuilder
		for _, f := range fields {
			b.AddRaw(f)
		}
		rec = b.Build()
	})
	if n > core.MaxValues || expLen(n, data) > 1_000_000 {
		// more fields than the 14 bit count can hold / beyond the documented
		// maximum record length: must be refused, or else round trip
		if e != nil {
			return
		}
	}
	if e != nil {
		fail("Build panicked: %s", lib.PanicText(e))
		return
	}
	if st != nil {
		st.n++
		if n > 0 {
			st.class[rec[0]>>6]++
		} else {
			st.class[0]++
		}
	}
	if g := rec.Count(); g != n {
		fail("Count() = %d", g)
		return
	}
	if rec.Len() != len(rec) {
		fail("Len() = %d but the record has %d bytes", rec.Len(), len(rec))
	}
	// RecLen finds the record length inside a larger buffer (as stored)
	buf := append(append(make([]byte, 0, len(rec)+3), rec...), 0xff, 0, 0x7f)
	if g := core.RecLen(buf); g != len(rec) {
		fail("RecLen = %d but the record has %d bytes", g, len(rec))
	}
	if st != nil && n > 0 && (int(rec[0]>>6) != expClass(n, data) || len(rec) != expLen(n, data)) {
		st.other++ // not demanded by the property, only reported
	}
	for i, f := range fields {
		if g := rec.GetRaw(i); g != f {
			fail("field %d reads back as %d bytes %.20q, written %d bytes %.20q", i, len(g), g, len(f), f)
			return
		}
	}
	if rec.GetRaw(-1) != "" || rec.GetRaw(n) != "" || rec.GetRaw(n+1) != "" {
		fail("GetRaw outside 0..%d is not empty", n-1)
	}
	// Truncate(k): exactly the leading k fields (trailing empty ones trimmed
	// when the record is rebuilt); unchanged if it has no more than k fields
	ks := []int{0, 1, 2, 3, n / 2, 250, 251, 252, 253, 254, n - 2, n - 1, n, n + 1}
	if n <= 64 {
		ks = ks[:0]
		for k := 0; k <= n+1; k++ {
			ks = append(ks, k)
		}
	}
	done := map[int]bool{}
	for _, k := range ks {
		if k < 0 || k > n+1 || done[k] {
			continue
		}
		done[k] = true
		var tr core.Record
		if e := lib.Try(func() { tr = rec.Truncate(k) }); e != nil {
			fail("Truncate(%d) panicked: %s", k, lib.PanicText(e))
			continue
		}
		if k >= n {
			if tr != rec {
				fail("Truncate(%d) changed a record of %d fields", k, n)
			}
			continue
		}
		wantCount := k
		for wantCount > 0 && fields[wantCount-1] == "" {
			wantCount--
		}
		// (the rebuilt record is documented to be trimmed; the property only
		// needs the leading fields, so any count from trimmed to k is accepted)
		if tr.Count() < wantCount || tr.Count() > k {
			fail("Truncate(%d).Count() = %d want %d..%d", k, tr.Count(), wantCount, k)
		}
		if tr.Len() != len(tr) {
			fail("Truncate(%d): Len() = %d, %d bytes", k, tr.Len(), len(tr))
		}
		for i := 0; i <= k+1 && i < n; i++ {
			want := ""
			if i < k {
				want = fields[i]
			}
			if g := tr.GetRaw(i); g != want {
				fail("Truncate(%d): field %d is %d bytes %.20q want %d bytes %.20q", k, i, len(g), g, len(want), want)
				break
			}
		}
	}
	// Trim().Build() drops trailing empty fields only
	if n <= 64 {
		var b core.RecordBuilder
		for _, f := range fields {
			b.AddRaw(f)
		}
		tr := b.Trim().Build()
		wc := n
		for wc > 0 && fields[wc-1] == "" {
			wc--
		}
		if tr.Count() != wc {
			fail("Trim().Build().Count() = %d want %d", tr.Count(), wc)
		}
		for i := 0; i < n; i++ {
			want := fields[i]
			if i >= wc {
				want = ""
			}
			if tr.GetRaw(i) != want {
				fail("Trim().Build(): field %d differs", i)
			}
		}
	}
}

// packed values: records built with Add(Packable) read back as the packed
// form / the value
var valAlpha = []core.Value{core.SuStr(""), core.SuStr("a"), core.SuStr("a\x00"), core.IntVal(0), core.IntVal(1), core.IntVal(-1),
	core.IntVal(1000001), core.True, core.False, core.NewDate(2024, 2, 29, 23, 59, 59, 999)}

func checkValues(c *lib.Ctx, idx []int) {
	if e := lib.Try(func() { checkValues1(c, idx) }); e != nil {
		c.Fail("", kase{Kind: "values", Vals: idx}, "record of values %v: panic: %s", idx, lib.PanicText(e))
	}
}

func checkValues1(c *lib.Ctx, idx []int) {
	fail := func(format string, a ...any) {
		c.Fail("", kase{Kind: "values", Vals: idx}, "record of values %v: %s", idx, fmt.Sprintf(format, a...))
	}
	var b core.RecordBuilder
	for _, i := range idx {
		b.Add(valAlpha[i].(core.Packable))
	}
	rec := b.Build()
	if rec.Count() != len(idx) {
		fail("Count() = %d", rec.Count())
	}
	for j, i := range idx {
		if g := rec.GetRaw(j); g != core.PackValue(valAlpha[i]) {
			fail("field %d raw %q want %q", j, g, core.PackValue(valAlpha[i]))
		}
		if g := rec.GetVal(j); !g.Equal(valAlpha[i]) {
			fail("field %d value %v want %v", j, g, valAlpha[i])
		}
	}
}

func runRecords(c *lib.Ctx) {
	var specs []*recSpec
	add := func(n, pat int, over map[int]int) {
		specs = append(specs, &recSpec{N: n, Pat: pat, Over: over})
	}
	// (1) all size vectors of 0..4 fields around 0 and the 8 bit boundary
	small := []int{0, 1, 2, 249, 250, 251, 252, 253, 254, 255, 256}
	var prod func(alpha []int, n int, cur []int)
	prod = func(alpha []int, n int, cur []int) {
		if len(cur) == n {
			over := map[int]int{}
			for i, s := range cur {
				over[i] = s
			}
			add(n, 0, over)
			return
		}
		for _, s := range alpha {
			prod(alpha, n, append(cur[:len(cur):len(cur)], s))
		}
	}
	for n := 0; n <= lib.Pick(c, 3, 4); n++ {
		prod(small, n, nil)
	}
	// (2) up to 3 fields incl. sizes around the 16 bit boundary
	big := []int{0, 1, 255, 256, 65526, 65527, 65528, 65529, 65530, 65531, 65532, 65533, 65534, 65535, 65536}
	if !c.Quick() {
		big = append(append([]int{}, small...), 65526, 65527, 65528, 65529, 65530, 65531, 65532, 65533, 65534, 65535, 65536)
	}
	for n := 1; n <= lib.Pick(c, 2, 3); n++ {
		prod(big, n, nil)
	}
	if c.Quick() {
		prod([]int{0, 1, 65527, 65528, 65529, 65530, 65536}, 3, nil)
	}
	// (3) total length on every value +-3 around both class boundaries, for
	// many field counts, filler field first / middle / last, 4 size patterns
	ns := []int{1, 2, 3, 4, 5, 8, 16, 17, 64, 100, 125, 126, 127, 128, 200, 249, 250, 251, 252, 253, 254, 255, 256, 257, 1000,
		8191, 8192, 16382, 16383}
	for _, n := range ns {
		for pat := 0; pat <= 3; pat++ {
			for pi, pos := range []int{0, n / 2, n - 1} {
				if pi > 0 && (pos == 0 || pi == 2 && pos == n/2) {
					continue
				}
				rs := recSpec{N: n, Pat: pat, Over: map[int]int{pos: 0}}
				rest := 0
				for i := 0; i < n; i++ {
					rest += rs.size(i)
				}
				for d := -3; d <= 3; d++ {
					// 8 -> 16 bit: 2+(1+n)+D == 0x100+d ; 16 -> 32 bit: 2+2(1+n)+D == 0x10000+d
					for _, fill := range []int{0x100 + d - 3 - n - rest, 0x10000 + d - 4 - 2*n - rest} {
						if fill >= 0 {
							add(n, pat, map[int]int{pos: fill})
						}
					}
				}
			}
		}
	}
	// (4) field count limits and the maximum record length (1,000,000)
	add(core.MaxValues, 0, nil)
	add(core.MaxValues, 1, nil)
	add(core.MaxValues, 3, map[int]int{7: 40000})
	add(core.MaxValues+1, 0, nil) // cannot be represented: must be refused
	add(core.MaxValues+1, 1, nil)
	for d := -2; d <= 2; d++ {
		add(1, 0, map[int]int{0: 1_000_000 + d - 10})     // total length 1,000,000 + d
		add(3, 1, map[int]int{1: 1_000_000 + d - 18 - 2}) // 2+4*4+1+x+1
	}
	var stats = make([]recStats, len(specs))
	c.Par(len(specs), func(i int) { checkRecord(c, specs[i], &stats[i]) })
	var tot recStats
	for _, s := range stats {
		tot.n += s.n
		tot.other += s.other
		for k := range tot.class {
			tot.class[k] += s.class[k]
		}
	}
	c.Set("record_header_classes", map[string]int{"empty": tot.class[0], "8bit": tot.class[1], "16bit": tot.class[2], "32bit": tot.class[3]})
	c.Set("records_not_in_documented_class_or_length", tot.other)
	if !c.Expired() && (tot.class[1] == 0 || tot.class[2] == 0 || tot.class[3] == 0) {
		lib.Infra("records: a header class was never produced: %v", tot.class)
	}
	// (5) records of packed values: all tuples of length <= 3 (thorough: 4)
	var tuples [][]int
	var tp func(cur []int, maxlen int)
	tp = func(cur []int, maxlen int) {
		tuples = append(tuples, cur)
		if len(cur) == maxlen {
			return
		}
		for i := range valAlpha {
			tp(append(cur[:len(cur):len(cur)], i), maxlen)
		}
	}
	tp(nil, lib.Pick(c, 3, 4))
	c.Par(len(tuples), func(i int) { checkValues(c, tuples[i]) })
	n := len(specs) + len(tuples)
	c.Eval(n)
	c.Nontrivial(n)
	c.Count("record_cases", len(specs))
	c.Count("value_record_cases", len(tuples))
	c.Sample(map[string]any{"group": "records", "spec": specs[len(specs)/2].String()})
}
