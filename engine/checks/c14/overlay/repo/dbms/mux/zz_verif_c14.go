//go:build verif

package mux

import "io"

// VerifNewWriteBuf returns a real WriteBuf writing to rw (check C14).
func VerifNewWriteBuf(rw io.ReadWriteCloser, id uint32) *WriteBuf {
	return newWriteBuf(&conn{rw: rw}, id)
}

// VerifReadAll runs the real connection reader over rw until it stops and
// returns the complete messages it delivered (check C14).
func VerifReadAll(rw io.ReadWriteCloser) (ids []uint32, msgs [][]byte, err string) {
	c := &conn{rw: rw}
	c.reader(func(id uint32, data []byte) {
		if data != nil {
			ids = append(ids, id)
			msgs = append(msgs, data)
		}
	})
	return ids, msgs, c.err.Load()
}
