// C14 Stored records and binary encodings round-trip.
//
// Four groups, each bounded-exhaustive over boundary alphabets read off the code:
//
//	records  core.RecordBuilder/Record: field-size vectors that cross the
//	         8/16/32-bit header class boundaries exactly (total length 255/256,
//	         65535/65536), 0..MaxValues fields, every Truncate(k)   (records.go)
//	stor     stor.Writer/Reader Put1..Put5/PutStr/PutStrs, SmallOffset:
//	         every boundary integer, all op sequences of length <= 3  (stor.go)
//	mux      client-server PutInt64/GetInt64 (zig-zag varint), PutStr/GetStr
//	         (size prefixed), PutStrs, PutInts, PutRec, PutVal, through the
//	         real 4 kb WriteBuf and the real connection framing/reader (mux.go)
//	pack     util/pack Encoder/Decoder fixed and variable ints, varint.Len
//
// Oracle: what is read must be exactly what was written, and the reader must
// have consumed exactly the bytes written. Byte formats are compared with
// encoding/binary / little endian only to REPORT differences (counters
// format_differs_*), the property asks for the round trip.
package main

import (
	"encoding/binary"
	"encoding/json"
	"fmt"
	"math"
	"sort"

	"github.com/apmckinlay/gsuneido/util/pack"
	"github.com/apmckinlay/gsuneido/util/varint"

	"verif/lib"
)

// pat is a 1.2 mb byte pattern (no period below 251*256); field / string
// contents are slices of it so that misplaced offsets show up as wrong bytes.
var pat = func() string {
	b := make([]byte, 1_200_000)
	for i := range b {
		b[i] = byte(i*7 + i/251 + i/65521)
	}
	return string(b)
}()

// content returns a deterministic string of the given length
func content(salt, length int) string {
	off := (salt * 13) % 997
	return pat[off : off+length]
}

// boundaryInts: all integers in [-70000, 70000], +-2 around +-2^k for k <= 63,
// and the int64 limits.
func boundaryInts(span int) []int64 {
	set := map[int64]bool{}
	for i := -span; i <= span; i++ {
		set[int64(i)] = true
	}
	for k := 0; k <= 63; k++ {
		for d := int64(-2); d <= 2; d++ {
			p := uint64(1) << k
			set[int64(p)+d] = true  // wraps for k == 63: covers MinInt64 +- and MaxInt64
			set[-int64(p)+d] = true // (wrapping is fine: any int64 is a valid input)
		}
	}
	for d := int64(0); d <= 2; d++ {
		set[math.MinInt64+d] = true
		set[math.MaxInt64-d] = true
	}
	out := make([]int64, 0, len(set))
	for v := range set {
		out = append(out, v)
	}
	sort.Slice(out, func(i, j int) bool { return out[i] < out[j] })
	return out
}

type kase struct {
	Kind string    `json:"kind"` // record | values | storint | storseq | smalloffset | muxint | muxseq | pack
	Rec  *recSpec  `json:"rec,omitempty"`
	Vals []int     `json:"vals,omitempty"`
	Ops  []opSpec  `json:"ops,omitempty"`
	V    int64     `json:"v,omitempty"`
	W    int       `json:"w,omitempty"`
	U    uint64    `json:"u,omitempty"`
	Lens []int     `json:"lens,omitempty"`
	X    *struct{} `json:"-"`
}

// ---------------------------------------------------------------- util/pack + varint

func checkPackInts(c *lib.Ctx, ints []int64) {
	if e := lib.Try(func() { checkPackInts1(c, ints) }); e != nil {
		c.Fail("", kase{Kind: "pack"}, "util/pack: panic: %s", lib.PanicText(e))
	}
}

func checkPackInts1(c *lib.Ctx, ints []int64) {
	fail := func(v int64, u uint64, format string, a ...any) {
		c.Fail("", kase{Kind: "pack", V: v, U: u}, "util/pack: "+format, a...)
	}
	n := 0
	// Uint16: all values
	for v := 0; v <= 0xffff; v++ {
		s := pack.NewEncoder(8).Uint16(uint16(v)).String()
		d := pack.NewDecoder(s)
		if g := d.Uint16(); int(g) != v || d.Remaining() != 0 || len(s) != 2 {
			fail(int64(v), 0, "Uint16(%d) -> % x -> %d remaining %d", v, s, g, d.Remaining())
		}
		n++
	}
	for _, v := range ints {
		if math.MinInt32 <= v && v <= math.MaxInt32 {
			s := pack.NewEncoder(8).Int32(int(v)).String()
			d := pack.NewDecoder(s)
			if g := d.Int32(); int64(g) != v || d.Remaining() != 0 || len(s) != 4 {
				fail(v, 0, "Int32(%d) -> % x -> %d remaining %d", v, s, g, d.Remaining())
			}
			n++
		}
		if 0 <= v && v <= math.MaxUint32 {
			s := pack.NewEncoder(8).Uint32(uint32(v)).String()
			d := pack.NewDecoder(s)
			if g := d.Uint32(); int64(g) != v || d.Remaining() != 0 || len(s) != 4 {
				fail(v, 0, "Uint32(%d) -> % x -> %d remaining %d", v, s, g, d.Remaining())
			}
			n++
		}
		u := uint64(v) // every bit pattern, incl. those >= 2^63
		e := pack.NewEncoder(16)
		e.Put1(0xaa) // something before, something after
		e.VarUint(u)
		e.Put1(0x55)
		s := e.String()
		d := pack.NewDecoder(s)
		d.Get1()
		g := d.VarUint()
		if g != u || d.Remaining() != 1 || d.Get1() != 0x55 {
			fail(v, u, "VarUint(%d) -> % x -> %d remaining %d", u, s, g, d.Remaining())
		}
		var ref [binary.MaxVarintLen64]byte
		rn := binary.PutUvarint(ref[:], u)
		// varint.Len is used to pre-size buffers: it must be the number of bytes VarUint writes
		if varint.Len(u) != len(s)-2 {
			fail(v, u, "varint.Len(%d) = %d but VarUint wrote %d bytes", u, varint.Len(u), len(s)-2)
		}
		if len(s) != rn+2 {
			c.Count("format_differs_from_uvarint", 1)
		}
		n += 2
	}
	c.Eval(n)
	c.Nontrivial(n)
	c.Count("pack_cases", n)
}

// ---------------------------------------------------------------- driver

func run(c *lib.Ctx) {
	ints := boundaryInts(lib.Pick(c, 70000, 1_000_000))
	c.Set("boundary_ints", len(ints))
	checkPackInts(c, ints)
	runStor(c, ints)
	runMux(c, ints)
	runRecords(c)
	c.Sample(map[string]any{"group": "ints", "first": ints[:3], "last": ints[len(ints)-3:]})
}

func replay(c *lib.Ctx, raw json.RawMessage) {
	var k kase
	if err := json.Unmarshal(raw, &k); err != nil {
		lib.Infra("bad case: %v", err)
	}
	switch k.Kind {
	case "record":
		checkRecord(c, k.Rec, nil)
	case "values":
		checkValues(c, k.Vals)
	case "storint":
		checkStorInt(c, k.W, k.V)
	case "storseq":
		checkStorSeq(c, k.Ops)
	case "storstr":
		checkStorStrLens(c, k.Lens)
	case "smalloffset":
		checkSmallOffset(c, k.U)
	case "muxint":
		checkMuxInt(c, k.V)
	case "muxseq":
		checkMuxSeq(c, k.Ops)
	case "pack":
		checkPackInts(c, []int64{k.V})
	default:
		lib.Infra("unknown case kind %q", k.Kind)
	}
}

func main() {
	lib.Main(lib.Spec{
		ID:    "C14",
		Level: "exploration",
		Rule: "records: field-size vectors (all vectors of <=4 sizes around 0 and 249..256; <=3 sizes incl. 65526..65536; for n up to MaxValues fields a filler field sized so the total length hits every value +-2 around the 8->16 and 16->32 bit header boundaries) built with RecordBuilder and read back, every Truncate(k); " +
			"stor Writer/Reader and mux WriteBuf/ReadBuf: every boundary integer ([-70000,70000], +-2 around +-2^k, limits; thorough: [-1000000,1000000]) per width, all op sequences of length <=3 over an op alphabet, strings around the 4 kb buffer / 64 k / varint size boundaries through the real connection framing; " +
			"a case is one written item (or sequence) read back; all cases are distinct by construction",
		Assumptions: []string{
			"oracle = identity (what is read back equals what was written, reader consumed exactly the written bytes); differences from the documented byte formats (little endian, zig-zag varint, uvarint) are only counted, not failures",
			"values outside an encoding's range must be rejected (panic), never silently changed",
			"mux messages kept below the 1 mb maxio/maxSize limits (limit() is fatal in a client process)",
			"verdict is for the enumerated sizes and integers only",
		},
		QuickBudget: 100, ThoroughBudget: 900,
		Run: run, Replay: replay,
	})
}

var _ = fmt.Sprint
