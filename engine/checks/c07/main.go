// C07 Key and unique constraints hold in every committed state. See verif/txpipe.
package main

import "verif/txpipe"

func main() {
	txpipe.Main(txpipe.CheckDef{
		ID:         "C07",
		Groups:     []string{"con"},
		Oracles:    txpipe.Oracles{Constraints: true},
		QuickBound: 2, ThoroughBound: 3,
		SyncLen: -2, SyncLenThorough: 2,
		Rule: "Oracle: in every published state no two rows share a key value, a key() table holds at most one row, no two rows share a non-empty unique-index value (empty values may repeat); committed writes replayed in commit order on the reference model must all succeed (so exactly one of two racing inserters can win).",
	})
}
