#!/usr/bin/env python3
"""Emit the go build overlay for one check.

Sources, later ones win:
  /verif/build/certs/server.{crt,key}      -> /repo/dbms/ (only if absent in /repo)
  /verif/overlay/repo/**                   -> /repo/** (added `//go:build verif` files, shim packages)
  /verif/engine/checks/<id>/overlay/repo/**-> /repo/** (check specific additions)
  instrumented copies of the files listed in checks/<id>/instrument.json,
  regenerated from the current /repo working tree on every run.
"""
import json, os, subprocess, sys

V = "/verif"
REPO = "/repo"
cid = sys.argv[1]
replace = {}

for f in ("server.crt", "server.key"):
    if not os.path.exists(f"{REPO}/dbms/{f}"):
        replace[f"{REPO}/dbms/{f}"] = f"{V}/build/certs/{f}"

def add_tree(root):
    for d, _, files in os.walk(root):
        for f in files:
            src = os.path.join(d, f)
            rel = os.path.relpath(src, root)
            replace[os.path.join(REPO, rel)] = src

add_tree(f"{V}/overlay/repo")
add_tree(f"{V}/engine/checks/{cid}/overlay/repo")
# shared overlay trees listed one per line in checks/<id>/overlay.dirs
dirs = f"{V}/engine/checks/{cid}/overlay.dirs"
if os.path.exists(dirs):
    for line in open(dirs):
        line = line.strip()
        if line and not line.startswith("#"):
            add_tree(line)

# mutated copies (mutate.sh): rel=src;rel=src;
muts = {}
for m in os.environ.get("VERIF_MUT_FILES", "").split(";"):
    if "=" in m:
        rel, src = m.split("=", 1)
        muts[rel] = src
        replace[os.path.join(REPO, rel)] = src

conf = f"{V}/engine/checks/{cid}/instrument.json"
if os.path.exists(conf):
    out = f"{V}/build/{cid}/instr"
    os.makedirs(out, exist_ok=True)
    exe = f"{V}/build/bin/instrument"
    r = subprocess.run(["go", "build", "-o", exe, "./cmd/instrument"], cwd=f"{V}/engine",
                       capture_output=True, text=True)
    if r.returncode != 0:
        sys.stderr.write(r.stderr)
        sys.exit(2)
    if muts:
        out = out + "-mut"
        os.makedirs(out, exist_ok=True)
    args = [exe, "-conf", conf, "-repo", REPO, "-out", out]
    for rel, src in muts.items():
        args += ["-src", f"{rel}={src}"]
    r = subprocess.run(args, capture_output=True, text=True)
    if r.returncode != 0:
        sys.stderr.write(r.stdout + r.stderr)
        sys.exit(2)
    for line in r.stdout.splitlines():
        rel = line.strip()
        if rel:
            replace[os.path.join(REPO, rel)] = os.path.join(out, rel)

json.dump({"Replace": replace}, sys.stdout, indent=1)
