package txpipe

// Curated conflict shapes. Values are single characters so that value order =
// byte order of the encoded keys. Rows of t are (k,a,u).

func ops(o ...Op) []Op { return o }

func L(t string, ix int, v ...string) Op { return Op{Kind: OpLookup, Table: t, Ix: ix, Vals: v} }
func S(t string, ix int, lo, hi string, dir, limit int) Op {
	return Op{Kind: OpScan, Table: t, Ix: ix, Lo: lo, Hi: hi, Dir: dir, Limit: limit}
}
func I(t string, r ...string) Op { return Op{Kind: OpInsert, Table: t, Row: r} }
func U(t string, key string, r ...string) Op {
	return Op{Kind: OpUpdate, Table: t, Vals: []string{key}, Row: r}
}
func U2(t string, key []string, r ...string) Op {
	return Op{Kind: OpUpdate, Table: t, Vals: key, Row: r}
}
func D(t string, key string) Op { return Op{Kind: OpDelete, Table: t, Vals: []string{key}} }
func A() Op                     { return Op{Kind: OpAbort} }
func AC() Op                    { return Op{Kind: OpAbortGoOn} }
func W(ev string) Op            { return Op{Kind: OpWait, Vals: []string{ev}} }

func upd(o ...Op) Tran { return Tran{Ops: o} }
func ro(o ...Op) Tran  { return Tran{ReadOnly: true, Ops: o} }

var t3 = map[string][]Row{"t": {{"1", "1", "1"}, {"2", "2", "2"}, {"4", "4", "4"}}}
var pc = map[string][]Row{"p": {{"1", "x"}, {"2", "x"}}, "c": {{"1", "1"}}}

// h 1 is referenced by l1 (cascade) and by l2 (cascade, through l2's key), l2 1 by g (block)
var hl = map[string][]Row{"t": {{"1", "1", "1"}}, "h": {{"1", "x"}, {"2", "x"}}, "l1": {{"a", "1"}, {"b", "2"}},
	"l2": {{"1", "e"}}, "g": {{"g1", "1"}}}

// hd (1,1) and (2,2) are referenced by ln 10 and ln 20; ln has the second key (d2,e)
var hdln = map[string][]Row{"hd": {{"1", "1"}, {"2", "2"}}, "ln": {{"10", "1", "1", "5"}, {"20", "2", "2", "5"}}}

// AllScenarios returns every scenario; checks pick theirs by group.
func AllScenarios() []*Scenario {
	return []*Scenario{
		// ---- serializability shapes (C01) ----
		{Name: "lost-update", Group: "ser", Init: t3, Clients: [][]Tran{
			{upd(L("t", 0, "1"), U("t", "1", "1", "5", "1"))},
			{upd(L("t", 0, "1"), U("t", "1", "1", "6", "1"))}}},
		{Name: "write-skew", Group: "ser", Init: t3, Clients: [][]Tran{
			{upd(L("t", 0, "1"), U("t", "2", "2", "7", "2"))},
			{upd(L("t", 0, "2"), U("t", "1", "1", "8", "1"))}}},
		{Name: "phantom-into-scanned-range", Group: "ser", Init: t3, Clients: [][]Tran{
			{upd(S("t", 0, "2", "5", 1, 0), I("t", "9", "9", "9"))},
			{upd(I("t", "3", "3", "3"))}}},
		{Name: "scan-to-eof-vs-append", Group: "ser", Init: t3, Clients: [][]Tran{
			{upd(S("t", 0, "", "", 1, 0), I("t", "0", "0", "0"))},
			{upd(I("t", "7", "7", "7"))}}},
		{Name: "backward-scan-vs-delete-last", Group: "ser", Init: t3, Clients: [][]Tran{
			{upd(S("t", 0, "", "", -1, 1), I("t", "0", "0", "0"))},
			{upd(D("t", "4"))}}},
		{Name: "partial-scan-vs-insert-beyond", Group: "ser", Init: t3, Clients: [][]Tran{
			{upd(S("t", 0, "", "", 1, 2), I("t", "0", "0", "0"))},
			{upd(I("t", "3", "3", "3"))}}},
		{Name: "key-change-into-read-range", Group: "ser", Init: t3, Clients: [][]Tran{
			{upd(S("t", 0, "2", "4", 1, 0), I("t", "9", "9", "9"))},
			{upd(U("t", "1", "3", "1", "1"))}}},
		{Name: "secondary-index-phantom", Group: "ser", Init: t3, Clients: [][]Tran{
			{upd(S("t", 1, "2", "4", 1, 0), I("t", "9", "9", "9"))},
			{upd(U("t", "4", "4", "3", "4"))}}},
		{Name: "delete-reinsert-vs-reader-writer", Group: "ser", Init: t3, Clients: [][]Tran{
			{upd(D("t", "2"), I("t", "2", "5", "2"))},
			{upd(L("t", 0, "2"), I("t", "6", "6", "6"))}}},
		{Name: "three-clients-two-tables", Heavy: true, Group: "ser", Init: t3, Clients: [][]Tran{
			{upd(L("t", 0, "1"), U("t", "1", "1", "5", "1"), I("p", "7", "x"))},
			{upd(L("t", 0, "1"), I("p", "8", "x"))},
			{upd(I("e", "1"))}}},
		{Name: "sequential-trans-per-client", Group: "ser", Init: t3, Clients: [][]Tran{
			{upd(I("t", "5", "5", "5")), upd(L("t", 0, "6"), D("t", "5"))},
			{upd(L("t", 0, "5"), I("t", "6", "6", "6"))}}},

		// ---- constraint races (C07) ----
		{Name: "dup-key-race", Group: "con", Init: t3, Clients: [][]Tran{
			{upd(I("t", "3", "7", "7"))},
			{upd(I("t", "3", "8", "8"))}}},
		{Name: "unique-race", Group: "con", Init: t3, Clients: [][]Tran{
			{upd(I("t", "5", "5", "9"))},
			{upd(I("t", "6", "6", "9"))}}},
		{Name: "unique-empty-may-repeat", Group: "con", Init: t3, Clients: [][]Tran{
			{upd(I("t", "5", "5", ""))},
			{upd(I("t", "6", "6", ""))}}},
		{Name: "empty-key-race", Group: "con", Clients: [][]Tran{
			{upd(I("e", "1"))},
			{upd(I("e", "2"))}}},
		{Name: "composite-unique-empty-first-column-race", Group: "con", Init: map[string][]Row{"w": {{"5", "", ""}}}, Clients: [][]Tran{
			{upd(I("w", "8", "", "y"), I("w", "1", "", ""))},
			{upd(I("w", "9", "", "y"))}}},
		{Name: "update-into-same-key", Group: "con", Init: t3, Clients: [][]Tran{
			{upd(U("t", "1", "3", "1", "1"))},
			{upd(U("t", "2", "3", "2", "2"))}}},
		{Name: "update-unique-vs-insert", Group: "con", Init: t3, Clients: [][]Tran{
			{upd(U("t", "1", "1", "1", "8"))},
			{upd(I("t", "7", "7", "8"))}}},
		// changing hd (1,1) to (1,2) is no duplicate in hd; it cascades ln 10 to
		// (10,1,2,5) whose second key (2,5) is taken by ln 20 - unless ln 20 was
		// deleted by a transaction that committed before this one started
		{Name: "cascade-collides-on-second-key", Group: "con", Init: hdln, Clients: [][]Tran{
			{upd(U2("hd", []string{"1", "1"}, "1", "2"))},
			{upd(D("ln", "20"))}}},
		{Name: "cascade-vs-insert-on-second-key", Group: "con", Init: map[string][]Row{"hd": hdln["hd"], "ln": {{"10", "1", "1", "5"}}}, Clients: [][]Tran{
			{upd(U2("hd", []string{"1", "1"}, "1", "2"))},
			{upd(I("ln", "30", "2", "2", "5"))}}},
		{Name: "three-way-dup-key", Heavy: true, Group: "con", Clients: [][]Tran{
			{upd(I("t", "3", "1", "1"))},
			{upd(I("t", "3", "2", "2"))},
			{upd(I("t", "3", "3", "3"))}}},

		// ---- atomicity / truthful outcome (C03) ----
		{Name: "abort-then-complete-behind-queued-starts", Group: "atom", Init: t3, Clients: [][]Tran{
			{upd(I("t", "5", "5", "5"), AC())},
			{upd(I("t", "6", "6", "6"))},
			{upd(I("t", "7", "7", "7"))}}},
		{Name: "abort-then-complete-two-clients", Group: "atom", Init: t3, Clients: [][]Tran{
			{upd(I("t", "5", "5", "5"), U("t", "1", "1", "9", "1"), AC())},
			{upd(I("t", "6", "6", "6")), upd(I("t", "7", "7", "7"))}}},
		{Name: "abort-after-writes", Group: "atom", Init: t3, Clients: [][]Tran{
			{upd(I("t", "5", "5", "5"), U("t", "1", "1", "9", "1"), A())},
			{upd(I("t", "6", "6", "6"), D("t", "2"))}}},
		{Name: "conflict-loser-leaves-no-trace", Group: "atom", Init: t3, Clients: [][]Tran{
			{upd(I("t", "5", "5", "5"), L("t", 0, "2"), U("t", "2", "2", "7", "2"))},
			{upd(I("t", "6", "6", "6"), L("t", 0, "2"), U("t", "2", "2", "8", "2"))}}},
		{Name: "multi-table-commit", Group: "atom", Init: pc, Clients: [][]Tran{
			{upd(I("p", "3", "x"), I("c", "3", "3"), I("t", "1", "1", "1"))},
			{upd(I("t", "2", "2", "2"), I("e", "1"))}}},
		{Name: "timeout-vs-commit", Group: "atom", Init: t3, Ticks: 1, Clients: [][]Tran{
			{upd(I("t", "5", "5", "5"), I("t", "6", "6", "6"))},
			{upd(I("t", "7", "7", "7"))}}},
		// the key change of h 1 cascades into l1 and l2; changing l2's key is blocked
		// by g: the whole update is refused; the client catches that and goes on
		{Name: "cascade-refused-then-continue", Group: "atom", Init: hl, Clients: [][]Tran{
			{upd(U("h", "1", "3", "x"), I("t", "5", "5", "5"))},
			{upd(I("t", "7", "7", "7"))}}},
		{Name: "cascade-through-two-tables", Group: "atom", Init: hl, Clients: [][]Tran{
			{upd(U("h", "2", "4", "y"), L("l1", 0, "b"))},
			{upd(D("g", "g1"), U("h", "1", "3", "x"))}}},
		{Name: "commit-then-next-tran-sees-it", Group: "atom", Init: t3, Clients: [][]Tran{
			{upd(I("t", "5", "5", "5")), upd(L("t", 0, "5"), U("t", "5", "5", "6", "5"))},
			{upd(I("t", "7", "7", "7"))}}},
		{Name: "dup-error-then-continue", Group: "atom", Init: t3, Clients: [][]Tran{
			{upd(I("t", "1", "9", "9"), I("t", "5", "5", "5"))},
			{upd(D("t", "1"), I("t", "8", "8", "8"))}}},

		// ---- snapshot (C02) ----
		{Name: "reader-new-iterator-after-commit-merge-persist", Group: "snap", Init: t3, Persist: true, PersistAfter: 1, Clients: [][]Tran{
			{ro(S("t", 0, "", "", 1, 0), W("persist"), S("t", 0, "", "", 1, 0), L("t", 0, "5"), S("t", 1, "", "", -1, 0))},
			{upd(I("t", "5", "5", "5"), D("t", "1"), U("t", "2", "2", "9", "2"))}}},
		{Name: "updater-new-iterator-after-others-persisted", Group: "snap", Init: t3, Persist: true, PersistAfter: 1, Clients: [][]Tran{
			{upd(S("t", 0, "", "", 1, 0), W("persist"), S("t", 0, "", "", 1, 0), S("t", 1, "", "", 1, 0))},
			{upd(I("t", "5", "5", "5"))}}},
		{Name: "reader-across-commits", Group: "snap", Init: t3, Clients: [][]Tran{
			{ro(S("t", 0, "", "", 1, 0), L("t", 0, "5"), S("t", 0, "", "", 1, 0), S("t", 1, "", "", -1, 0))},
			{upd(I("t", "5", "5", "5")), upd(D("t", "1"))}}},
		{Name: "reader-across-merge-and-persist", Group: "snap", Init: t3, Persist: true, Clients: [][]Tran{
			{ro(L("t", 0, "2"), S("t", 0, "", "", 1, 0), L("t", 0, "2"), S("t", 0, "", "", 1, 0))},
			{upd(U("t", "2", "2", "9", "2"), I("t", "3", "3", "3"))}}},
		{Name: "updater-rereads-own-writes", Group: "snap", Init: t3, Clients: [][]Tran{
			{upd(S("t", 0, "", "", 1, 0), I("t", "3", "3", "3"), S("t", 0, "", "", 1, 0), D("t", "1"), S("t", 0, "", "", -1, 0), L("t", 0, "6"))},
			{upd(I("t", "6", "6", "6"))}}},
		{Name: "two-readers-one-writer", Heavy: true, Group: "snap", Init: t3, Clients: [][]Tran{
			{ro(S("t", 0, "", "", 1, 0), S("t", 0, "", "", 1, 0))},
			{ro(L("t", 0, "1"), L("t", 0, "1"))},
			{upd(U("t", "1", "1", "9", "1"))}}},

		// ---- index agreement (C06) ----
		{Name: "update-then-delete-one-tran", Group: "idx", Init: t3, Clients: [][]Tran{
			{upd(U("t", "1", "1", "5", "1"), D("t", "1"), I("t", "1", "6", "6"))},
			{upd(U("t", "2", "3", "2", "2"), U("t", "3", "3", "7", "7"))}}},
		{Name: "key-change-all-indexes", Group: "idx", Init: t3, Persist: true, Clients: [][]Tran{
			{upd(U("t", "1", "5", "5", "5"), U("t", "5", "6", "6", ""))},
			{upd(D("t", "4"), I("t", "4", "1", "9"))}}},
		{Name: "cascade-under-concurrency", Group: "idx", Init: pc, Clients: [][]Tran{
			{upd(D("p", "1"))},
			{upd(I("c", "2", "2"), U("p", "2", "5", "x"))}}},

		{Name: "alter-create-index-vs-commits", Group: "idx", Init: pc, Admin: []AdminOp{{Kind: "altercreate", Table: "p", Mode: 'i', Cols: []string{"d"}}}, Clients: [][]Tran{
			{upd(I("p", "3", "y")), upd(I("p", "4", "z"))},
			{upd(I("t", "1", "1", "1"))}}},

		// ---- merge / persist (C16) ----
		{Name: "index-build-vs-pending-merge", Group: "merge", Init: pc, Admin: []AdminOp{{Kind: "altercreate", Table: "p", Mode: 'i', Cols: []string{"d"}}}, Clients: [][]Tran{
			{upd(U("p", "2", "2", "w")), upd(D("p", "2"))}}},
		{Name: "ensure-index-vs-commits", Group: "merge", Init: pc, Persist: true, Admin: []AdminOp{{Kind: "ensure", Table: "p", Mode: 'i', Cols: []string{"d"}}}, Clients: [][]Tran{
			{upd(I("p", "3", "y")), upd(U("p", "3", "3", "q"))}}},
		{Name: "three-committers-two-tables", Heavy: true, Group: "merge", Init: t3, Persist: true, Clients: [][]Tran{
			{upd(I("t", "5", "5", "5"), I("p", "5", "x")), upd(D("t", "5"))},
			{upd(I("p", "6", "x"), I("e", "1"))},
			{upd(U("t", "1", "1", "9", "1"))}}},
		{Name: "commit-burst-one-table", Group: "merge", Init: t3, Persist: true, Clients: [][]Tran{
			{upd(I("t", "5", "5", "5")), upd(I("t", "6", "6", "6"))},
			{upd(I("t", "7", "7", "7")), upd(D("t", "2"))}}},
		{Name: "persist-ticker-vs-commits", Group: "merge", Init: t3, Ticks: 2, Clients: [][]Tran{
			{upd(I("t", "5", "5", "5"), I("p", "1", "x"))},
			{upd(I("t", "6", "6", "6"), I("p", "2", "x"))}}},

		// ---- foreign keys under concurrency (C08 concurrent half) ----
		{Name: "fk-source-insert-vs-target-delete", Group: "fk", Init: pc, Clients: [][]Tran{
			{upd(I("c", "5", "2"))},
			{upd(D("p", "2"))}}},
		{Name: "fk-source-insert-vs-target-key-update", Group: "fk", Init: pc, Clients: [][]Tran{
			{upd(I("c", "5", "2"))},
			{upd(U("p", "2", "7", "x"))}}},
		{Name: "fk-cascade-delete-vs-source-update", Group: "fk", Init: pc, Clients: [][]Tran{
			{upd(D("p", "1"))},
			{upd(U("c", "1", "1", "2"))}}},
	}
}

// Group returns the scenarios of the given groups.
func Group(groups ...string) []*Scenario {
	var out []*Scenario
	all := AllScenarios()
	for _, g := range groups {
		for _, sc := range all {
			if sc.Group == g {
				out = append(out, sc)
			}
		}
	}
	return out
}
