package txpipe

import (
	"encoding/json"
	"fmt"
	"os"
	"runtime/pprof"
	"strings"

	"verif/explore"
	"verif/lib"
	"verif/sched"
)

type syncCase struct {
	Sync    bool  `json:"sync"`
	A       []Op  `json:"a"`
	B       []Op  `json:"b"`
	Choices []int `json:"choices"`
}

// runSyncTier explores every ordered pair of scripts of length <= maxLen with
// every operation-level interleaving and every abort-coin outcome.
func runSyncTier(c *lib.Ctx, d CheckDef, maxLen int) {
	scripts := SyncScripts(maxLen)
	n := len(scripts)
	if c.Shard == 0 {
		c.Set("sync_tier_scripts", n)
		c.Set("sync_tier_script_pairs", n*n)
	}
	var execs, pairs int64
	outcomes := map[uint64]struct{}{}
	for k := c.Shard; k < n*n; k += c.NShards {
		if c.Expired() {
			c.Cap("sync tier: stopped at pair %d of %d on shard %d", k, n*n, c.Shard)
			break
		}
		a, b := scripts[k/n], scripts[k%n]
		run := func(ch *explore.Chooser) string {
			obs, f := RunSyncPair(a, b, d.Oracles, ch)
			if f != nil {
				// confirm by replaying once: same choices, same failure
				_, f2 := RunSyncPair(a, b, d.Oracles, &explore.Chooser{Prefix: ch.Rec.Choices})
				if f2 == nil {
					lib.Infra("sync tier failure did not reproduce: %s", f.Msg)
				}
				c.Fail(f.Class, syncCase{Sync: true, A: a, B: b, Choices: append([]int{}, ch.Rec.Choices...)}, "%s", f.Msg)
			}
			return obs
		}
		st := explore.Explore(run, explore.Options{Bound: 0, Stop: c.Stopped})
		execs += st.Executions
		pairs++
		for h := range st.Outcomes {
			outcomes[h^uint64(k)*0x9e3779b97f4a7c15] = struct{}{}
		}
		if c.Shard == 0 && k == 0 || (c.NSamples() < 2 && k%97 == 5) {
			ch := &explore.Chooser{}
			obs, _ := RunSyncPair(a, b, d.Oracles, ch)
			c.Sample(map[string]any{"sync_tier_pair": fmt.Sprint(a, " | ", b), "default_interleaving_observation": obs})
		}
		if c.Stopped() {
			break
		}
	}
	c.Eval(int(execs))
	c.Count("sync_tier_executions", int(execs))
	c.Count("sync_tier_pairs_done", int(pairs))
	for h := range outcomes {
		c.DistinctHash(h)
	}
}

// CheckDef configures one txpipe-based check.
type CheckDef struct {
	ID            string
	Groups        []string
	Oracles       Oracles
	QuickBound    int
	ThoroughBound int
	Rule          string
	Assumptions   []string
	// SyncLen > 0 adds the synchronous tier: all ordered pairs of scripts of
	// length <= SyncLen (quick) / SyncLenThorough (thorough), all interleavings.
	SyncLen, SyncLenThorough int
	QuickBudget              float64
	ThoroughBudget           float64
}

var commonAssumptions = []string{
	"the real db19 pipeline (CheckCo, priority queue, checker, merger, merge/persist workers, persist ticker, tick generator) runs under the cooperative scheduler; its sync, sync/atomic, time, math/rand imports and channel operations are rewritten by /verif/engine/cmd/instrument on every run; sequentially consistent memory",
	"stor.Alloc is an atomic step here (checked on its own in C18); the 8 merge and 8 persist workers are reduced by thread-class symmetry (only the lowest idle worker of a pool is offered)",
	"map iteration inside the conflict checker is made deterministic (ascending transaction number)",
	"both outcomes of the checker's abort coin are explored at no cost; timer events (checker tick, persist ticker) are environment choices with a per-scenario budget",
	"bounded to the listed scenarios (2-3 clients, 1-2 short transactions each, key domain forced to collide) and the preemption bound reported",
}

func build(c *lib.Ctx, d CheckDef) []*sched.Scenario {
	var out []*sched.Scenario
	for _, sc := range Group(d.Groups...) {
		if only := os.Getenv("VERIF_ONLY"); only != "" && !strings.Contains(sc.Name, only) {
			continue
		}
		sc.MaxBound = lib.Pick(c, d.QuickBound, d.ThoroughBound)
		if sc.Heavy || sc.Persist || len(sc.Admin) > 0 || len(sc.Clients) > 2 {
			// three or more client-side threads: the free choices at blocking points
			// multiply, so these scenarios are explored with delay bounding (every
			// departure from the default schedule costs one deviation) in the quick
			// tier and with preemption bound 1 in the thorough tier
			if c.Quick() {
				sc.FreeCost = 1
				sc.MaxBound = 2
			} else {
				sc.MaxBound = 1
			}
		}
		if c.Quick() {
			sc.AutoDelay = 1500
		}
		out = append(out, NewScenario(sc, d.Oracles))
	}
	return out
}

// Main runs a txpipe check.
func Main(d CheckDef) {
	run := func(c *lib.Ctx) {
		if pf := os.Getenv("VERIF_CPUPROFILE"); pf != "" {
			f, _ := os.Create(pf)
			pprof.StartCPUProfile(f)
			defer pprof.StopCPUProfile()
		}
		scs := build(c, d)
		if dbg := os.Getenv("VERIF_DEBUG_SCENARIO"); dbg != "" {
			for _, sc := range scs {
				if sc.Name == dbg {
					obs, f, rec, out, tr := sched.RunOne(sc, nil, true)
					fmt.Println(strings.Join(tr, "\n"))
					fmt.Println("status", out.Status, out.Detail, "steps", out.Steps, "threads", out.Threads, "points", len(rec.Points))
					free, prod := 0, 1.0
					for _, p := range rec.Points {
						if p.N > 1 && p.Costs[1] == 0 {
							free++
							prod *= float64(p.N)
							fmt.Printf("free point n=%d %s\n", p.N, p.Label)
						}
					}
					fmt.Println("free points", free, "product", prod)
					fmt.Println("obs:", obs)
					fmt.Println("failure:", f)
				}
			}
			os.Exit(3)
		}
		c.Set("scenarios", len(scs))
		if n := lib.Pick(c, d.SyncLen, d.SyncLenThorough); n != 0 && os.Getenv("VERIF_ONLY") == "" {
			runSyncTier(c, d, n)
		}
		if d.Oracles.Snapshot && os.Getenv("VERIF_ONLY") == "" && c.Shard == 0 {
			runSchemaSnapshots(c)
		}
		if os.Getenv("VERIF_SYNC_ONLY") != "" {
			return
		}
		sched.ExploreAll(c, scs)
	}
	replay := func(c *lib.Ctx, raw json.RawMessage) {
		var sc syncCase
		if json.Unmarshal(raw, &sc) == nil && sc.Sync {
			obs, f := RunSyncPair(sc.A, sc.B, d.Oracles, &explore.Chooser{Prefix: sc.Choices})
			fmt.Println("observation:", obs)
			if f != nil {
				c.Fail(f.Class, sc, "%s", f.Msg)
			}
			return
		}
		sched.Replay(c, build(c, d), raw)
	}
	qb, tb := d.QuickBudget, d.ThoroughBudget
	if qb == 0 {
		qb = 100
	}
	if tb == 0 {
		tb = 1200
	}
	lib.Main(lib.Spec{
		ID:    d.ID,
		Level: "exploration",
		Rule: d.Rule + " Enumeration: every schedule of the scenario's threads (clients + the pipeline's own goroutines) at synchronisation-operation granularity within the preemption bound, bound iterated 0,1,2…; " +
			"evaluations = complete executions; distinct = distinct (scenario, observations of all transactions + final database) outcomes",
		Assumptions: append(append([]string{}, commonAssumptions...), d.Assumptions...),
		QuickBudget: qb, ThoroughBudget: tb,
		Procs: 16,
		Run:   run, Replay: replay,
	})
}
