// Package txpipe is the shared harness of the transaction-pipeline checks
// (C01 C02 C03 C06 C07 C16 and the concurrent halves of C08/C44): the real
// db19 pipeline (CheckCo, priority queue, checker goroutine, merger, merge and
// persist workers) runs under the controlled scheduler while 2–3 client
// threads execute straight-line transaction scripts; a boring reference model
// (this file) of the tables judges what was observed.
package txpipe

import (
	"fmt"
	"sort"
	"strings"
)

// ---- schema ----------------------------------------------------------------

// Index of a model table. Mode: 'k' key, 'i' index, 'u' unique index.
type Index struct {
	Mode    byte
	Cols    []string
	FkTable string // foreign key target ("" if none); target columns = target's key
	FkMode  byte   // 0 block, 1 cascade updates, 2 cascade deletes, 3 both
}

// Table definition.
type Table struct {
	Name    string
	Cols    []string
	Indexes []Index
}

func (t *Table) col(name string) int {
	for i, c := range t.Cols {
		if c == name {
			return i
		}
	}
	panic("no column " + name + " in " + t.Name)
}

// Row is one record: values parallel to Table.Cols.
type Row []string

func (r Row) String() string { return strings.Join(r, ",") }

func (r Row) clone() Row { return append(Row{}, r...) }

// Schema is the fixed set of tables used by the scenarios.
var Schema = []*Table{
	{Name: "t", Cols: []string{"k", "a", "u"}, Indexes: []Index{
		{Mode: 'k', Cols: []string{"k"}},
		{Mode: 'i', Cols: []string{"a"}},
		{Mode: 'u', Cols: []string{"u"}}}},
	{Name: "e", Cols: []string{"x"}, Indexes: []Index{{Mode: 'k', Cols: []string{}}}},
	// composite unique index that does not contain the key: a value is exempt from
	// uniqueness only when ALL its columns are empty
	{Name: "w", Cols: []string{"k", "a", "b"}, Indexes: []Index{
		{Mode: 'k', Cols: []string{"k"}},
		{Mode: 'u', Cols: []string{"a", "b"}}}},
	// unique index on a case-insensitive (_lower!) column
	{Name: "lw", Cols: []string{"k", "a"}, Indexes: []Index{
		{Mode: 'k', Cols: []string{"k"}},
		{Mode: 'u', Cols: []string{"a_lower!"}}}},
	{Name: "p", Cols: []string{"pk", "d"}, Indexes: []Index{{Mode: 'k', Cols: []string{"pk"}}}},
	{Name: "c", Cols: []string{"ck", "pk"}, Indexes: []Index{
		{Mode: 'k', Cols: []string{"ck"}},
		{Mode: 'i', Cols: []string{"pk"}, FkTable: "p", FkMode: 3}}},
	// a cascade that goes through two tables and is blocked further down:
	// h <- l1 (cascade), h <- l2 (its KEY is the foreign key, cascade), l2 <- g (block)
	{Name: "h", Cols: []string{"hk", "d"}, Indexes: []Index{{Mode: 'k', Cols: []string{"hk"}}}},
	{Name: "l1", Cols: []string{"k1", "hk"}, Indexes: []Index{
		{Mode: 'k', Cols: []string{"k1"}},
		{Mode: 'i', Cols: []string{"hk"}, FkTable: "h", FkMode: 3}}},
	{Name: "l2", Cols: []string{"hk2", "e"}, Indexes: []Index{
		{Mode: 'k', Cols: []string{"hk2"}, FkTable: "h", FkMode: 3}}},
	{Name: "g", Cols: []string{"gk", "hk2"}, Indexes: []Index{
		{Mode: 'k', Cols: []string{"gk"}},
		{Mode: 'i', Cols: []string{"hk2"}, FkTable: "l2", FkMode: 0}}},
	// a composite foreign key that cascades into a table with a second key made of
	// SOME of the foreign key columns plus a column of its own: the cascaded change
	// can collide there although the referenced key change itself is fine
	{Name: "hd", Cols: []string{"a", "b"}, Indexes: []Index{{Mode: 'k', Cols: []string{"a", "b"}}}},
	{Name: "ln", Cols: []string{"id", "d1", "d2", "e"}, Indexes: []Index{
		{Mode: 'k', Cols: []string{"id"}},
		{Mode: 'k', Cols: []string{"d2", "e"}},
		{Mode: 'i', Cols: []string{"d1", "d2"}, FkTable: "hd", FkMode: 3}}},
}

func tableDef(name string) *Table {
	for _, t := range Schema {
		if t.Name == name {
			return t
		}
	}
	panic("no table " + name)
}

// ---- operations --------------------------------------------------------------

// Op kinds.
const (
	OpLookup = "L" // Table, Ix, Vals (values of the index columns)
	OpScan   = "S" // Table, Ix, Lo, Hi (on the first index column; ""/"" = all), Dir, Limit (0 = to eof)
	OpInsert = "I" // Table, Row
	OpUpdate = "U" // Table, Vals (primary key values), Row (new row)
	OpDelete = "D" // Table, Vals (primary key values)
	OpAbort  = "A"
	// OpAbortGoOn: Abort() and then still call Complete() (what code does that
	// catches the failure of a statement, which aborted the transaction, and
	// carries on to the end of the transaction block)
	OpAbortGoOn = "AC"
	// OpWait blocks until the harness event named in Vals[0] happened:
	// "persist" (the persister thread's forced persist returned) or
	// "commits:N" (N transactions completed successfully). It builds histories
	// that need a particular order without spending preemptions on it.
	OpWait = "W"
)

// Op is one step of a transaction script.
type Op struct {
	Kind  string   `json:"k"`
	Table string   `json:"t,omitempty"`
	Ix    int      `json:"ix,omitempty"`
	Vals  []string `json:"v,omitempty"`
	Lo    string   `json:"lo,omitempty"`
	Hi    string   `json:"hi,omitempty"`
	Dir   int      `json:"dir,omitempty"` // +1 forward (default), -1 backward
	Limit int      `json:"lim,omitempty"`
	Row   Row      `json:"row,omitempty"`
}

func (o Op) String() string {
	switch o.Kind {
	case OpLookup:
		return fmt.Sprintf("L %s#%d%v", o.Table, o.Ix, o.Vals)
	case OpScan:
		d := ">"
		if o.Dir < 0 {
			d = "<"
		}
		return fmt.Sprintf("S %s#%d[%s,%s)%s%d", o.Table, o.Ix, o.Lo, o.Hi, d, o.Limit)
	case OpInsert:
		return fmt.Sprintf("I %s(%s)", o.Table, o.Row)
	case OpUpdate:
		return fmt.Sprintf("U %s%v=(%s)", o.Table, o.Vals, o.Row)
	case OpDelete:
		return fmt.Sprintf("D %s%v", o.Table, o.Vals)
	case OpWait:
		return "W " + strings.Join(o.Vals, "")
	}
	return o.Kind
}

// Tran is a transaction script.
type Tran struct {
	ReadOnly bool `json:"ro,omitempty"`
	Ops      []Op `json:"ops"`
}

// ---- model database ------------------------------------------------------------

// MDB is the reference database: table name -> rows (unordered set).
type MDB map[string][]Row

func (m MDB) Clone() MDB {
	c := MDB{}
	for t, rows := range m {
		rr := make([]Row, len(rows))
		for i, r := range rows {
			rr[i] = r.clone()
		}
		c[t] = rr
	}
	return c
}

// Canon renders the database canonically (tables sorted, rows sorted).
func (m MDB) Canon() string {
	var names []string
	for _, t := range Schema {
		names = append(names, t.Name)
	}
	sort.Strings(names)
	var sb strings.Builder
	for _, n := range names {
		rows := make([]string, 0, len(m[n]))
		for _, r := range m[n] {
			rows = append(rows, r.String())
		}
		sort.Strings(rows)
		fmt.Fprintf(&sb, "%s{%s} ", n, strings.Join(rows, " | "))
	}
	return sb.String()
}

func vals(t *Table, r Row, cols []string) []string {
	out := make([]string, len(cols))
	for i, c := range cols {
		if base, ok := strings.CutSuffix(c, "_lower!"); ok {
			out[i] = strings.ToLower(r[t.col(base)]) // case-insensitive index column
		} else {
			out[i] = r[t.col(c)]
		}
	}
	return out
}

func allEmpty(v []string) bool {
	for _, s := range v {
		if s != "" {
			return false
		}
	}
	return true
}

func eq(a, b []string) bool {
	if len(a) != len(b) {
		return false
	}
	for i := range a {
		if a[i] != b[i] {
			return false
		}
	}
	return true
}

func less(a, b []string) bool {
	for i := 0; i < len(a) && i < len(b); i++ {
		if a[i] != b[i] {
			return a[i] < b[i]
		}
	}
	return len(a) < len(b)
}

// sortKey is the full ordering tuple of a row in index ix: the index columns,
// then (for non-key indexes) the primary key columns that make entries unique.
func sortKey(t *Table, ix int, r Row) []string {
	k := vals(t, r, t.Indexes[ix].Cols)
	if t.Indexes[ix].Mode != 'k' {
		k = append(k, vals(t, r, t.Indexes[0].Cols)...)
	}
	return k
}

// Lookup returns the row whose index columns equal v (key and unique indexes).
func (m MDB) Lookup(tn string, ix int, v []string) Row {
	t := tableDef(tn)
	for _, r := range m[tn] {
		if eq(vals(t, r, t.Indexes[ix].Cols), v) {
			return r
		}
	}
	return nil
}

// Scan returns the rows with lo <= first index column < hi (all when lo==hi=="")
// in index order / reverse order, at most limit rows (0 = all); eof tells
// whether the scan ran off the end.
func (m MDB) Scan(tn string, ix int, lo, hi string, dir, limit int) (rows []Row, eof bool) {
	t := tableDef(tn)
	var sel []Row
	for _, r := range m[tn] {
		if lo != "" || hi != "" {
			first := ""
			if len(t.Indexes[ix].Cols) > 0 {
				first = r[t.col(t.Indexes[ix].Cols[0])]
			}
			if first < lo || first >= hi {
				continue
			}
		}
		sel = append(sel, r)
	}
	sort.Slice(sel, func(i, j int) bool { return less(sortKey(t, ix, sel[i]), sortKey(t, ix, sel[j])) })
	if dir < 0 {
		for i, j := 0, len(sel)-1; i < j; i, j = i+1, j-1 {
			sel[i], sel[j] = sel[j], sel[i]
		}
	}
	if limit > 0 && len(sel) >= limit {
		return sel[:limit], false
	}
	return sel, true
}

// dupCheck reports a duplicate of row r (ignoring the row `skip`) on a key or
// on a non-empty unique index.
func (m MDB) dupCheck(t *Table, r, skip Row) bool {
	for i, ix := range t.Indexes {
		if ix.Mode == 'i' {
			continue
		}
		v := vals(t, r, ix.Cols)
		if ix.Mode == 'u' && allEmpty(v) {
			continue
		}
		if skip != nil && eq(vals(t, skip, ix.Cols), v) {
			continue // unchanged on this index
		}
		if ix.Mode == 'k' && len(ix.Cols) == 0 {
			n := len(m[t.Name])
			if skip != nil {
				n--
			}
			if n > 0 {
				return true
			}
			continue
		}
		if o := m.Lookup(t.Name, i, v); o != nil {
			return true
		}
	}
	return false
}

// fkMissing reports whether row r of table t references a missing target row.
func (m MDB) fkMissing(t *Table, r, old Row) bool {
	for _, ix := range t.Indexes {
		if ix.FkTable == "" {
			continue
		}
		v := vals(t, r, ix.Cols)
		if allEmpty(v) {
			continue
		}
		if old != nil && eq(vals(t, old, ix.Cols), v) {
			continue
		}
		if m.Lookup(ix.FkTable, 0, v) == nil {
			return true
		}
	}
	return false
}

// referrers returns (source table, index, rows) referencing key value v of table tn.
type refs struct {
	t    *Table
	ix   Index
	rows []Row
}

func (m MDB) referrers(tn string, v []string) []refs {
	var out []refs
	for _, st := range Schema {
		for _, ix := range st.Indexes {
			if ix.FkTable != tn {
				continue
			}
			var rr []Row
			for _, r := range m[st.Name] {
				if eq(vals(st, r, ix.Cols), v) {
					rr = append(rr, r)
				}
			}
			if len(rr) > 0 {
				out = append(out, refs{st, ix, rr})
			}
		}
	}
	return out
}

// Insert returns "ok", "dup" or "fk".
func (m MDB) Insert(tn string, r Row) string {
	t := tableDef(tn)
	if m.dupCheck(t, r, nil) {
		return "dup"
	}
	if m.fkMissing(t, r, nil) {
		return "fk"
	}
	m[tn] = append(m[tn], r.clone())
	return "ok"
}

func (m MDB) remove(tn string, r Row) {
	rows := m[tn]
	for i := range rows {
		if eq(rows[i], r) {
			m[tn] = append(rows[:i:i], rows[i+1:]...)
			return
		}
	}
	panic("model: row to remove not found")
}

// Delete by primary key: "ok", "nf" or "fk" (blocked).
func (m MDB) Delete(tn string, key []string) string {
	old := m.Lookup(tn, 0, key)
	if old == nil {
		return "nf"
	}
	t := tableDef(tn)
	kv := vals(t, old, t.Indexes[0].Cols)
	for _, rf := range m.referrers(tn, kv) {
		if rf.ix.FkMode&2 == 0 {
			return "fk"
		}
	}
	for _, rf := range m.referrers(tn, kv) {
		for _, r := range rf.rows {
			m.Delete(rf.t.Name, vals(rf.t, r, rf.t.Indexes[0].Cols))
		}
	}
	m.remove(tn, old)
	return "ok"
}

// Update by primary key: "ok", "nf", "dup" or "fk". All or nothing: a cascaded
// update that is refused (a duplicate in the referencing table, a row further
// down that blocks) refuses the whole update.
func (m MDB) Update(tn string, key []string, nr Row) string {
	c := m.Clone()
	res := c.update(tn, key, nr, false)
	if res == "ok" {
		for t, rows := range c {
			m[t] = rows
		}
	}
	return res
}

func (m MDB) update(tn string, key []string, nr Row, cascaded bool) string {
	old := m.Lookup(tn, 0, key)
	if old == nil {
		return "nf"
	}
	t := tableDef(tn)
	if eq(old, nr) {
		return "ok"
	}
	if m.dupCheck(t, nr, old) {
		return "dup"
	}
	okv := vals(t, old, t.Indexes[0].Cols)
	nkv := vals(t, nr, t.Indexes[0].Cols)
	keyChanged := !eq(okv, nkv)
	var rfs []refs
	if keyChanged {
		rfs = m.referrers(tn, okv)
		for _, rf := range rfs {
			if rf.ix.FkMode&1 == 0 {
				return "fk"
			}
		}
	}
	// (the foreign key of a cascaded row is the value its target is just being
	// changed to)
	if !cascaded && m.fkMissing(t, nr, old) {
		return "fk"
	}
	m.remove(tn, old)
	m[tn] = append(m[tn], nr.clone())
	for _, rf := range rfs {
		for _, r := range rf.rows {
			n := r.clone()
			for i, c := range rf.ix.Cols {
				n[rf.t.col(c)] = nkv[i]
			}
			if res := m.update(rf.t.Name, vals(rf.t, r, rf.t.Indexes[0].Cols), n, true); res != "ok" {
				return res
			}
		}
	}
	return "ok"
}

// Apply runs one op on the model and returns its observation string in the
// same format the real executor produces.
func (m MDB) Apply(o Op) string {
	switch o.Kind {
	case OpLookup:
		if r := m.Lookup(o.Table, o.Ix, o.Vals); r != nil {
			return "row(" + r.String() + ")"
		}
		return "nf"
	case OpScan:
		rows, eof := m.Scan(o.Table, o.Ix, o.Lo, o.Hi, o.Dir, o.Limit)
		return scanObs(rows, eof)
	case OpInsert:
		return m.Insert(o.Table, o.Row)
	case OpUpdate:
		return m.Update(o.Table, o.Vals, o.Row)
	case OpDelete:
		return m.Delete(o.Table, o.Vals)
	case OpAbort, OpAbortGoOn:
		return "abort"
	case OpWait:
		return "ok"
	}
	panic("bad op " + o.Kind)
}

func scanObs(rows []Row, eof bool) string {
	var sb strings.Builder
	sb.WriteString("[")
	for i, r := range rows {
		if i > 0 {
			sb.WriteString(" | ")
		}
		sb.WriteString(r.String())
	}
	sb.WriteString("]")
	if eof {
		sb.WriteString("eof")
	}
	return sb.String()
}

// IsWrite reports whether op kind k modifies data.
func IsWrite(k string) bool { return k == OpInsert || k == OpUpdate || k == OpDelete }
