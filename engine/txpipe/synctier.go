package txpipe

import (
	"fmt"
	"math"
	"strings"

	"github.com/apmckinlay/gsuneido/db19"
	"github.com/apmckinlay/gsuneido/db19/stor"
	"github.com/apmckinlay/gsuneido/verifshim/vrand"

	"verif/explore"
	"verif/sched"
)

// Synchronous tier: the conflict checker is called synchronously
// (db.CheckerSync()), no goroutines and no scheduler. Two transactions are
// started, then the operations of their scripts (followed by completion) are
// interleaved at OPERATION granularity - every interleaving, and every outcome
// of the checker's abort coin, enumerated by the explorer as data choices.
// Compared with the scheduled tier the alphabet is broad (every script of
// length <= 2 over SyncOps) and the granularity coarse.

// SyncOps is the operation alphabet (table t holds (1,1,1) (2,2,2) (4,4,4); table w, with a
// composite unique index (a,b), holds (6,"",z) (7,"",y) (5,"",""); hd (1,1) (2,2) is
// referenced with a cascading composite foreign key by ln (10,1,1,5) (20,2,2,5), which
// has the second key (d2,e)).
var SyncOps = []Op{
	L("t", 0, "1"), L("t", 0, "3"),
	S("t", 0, "", "", 1, 0), S("t", 0, "2", "5", 1, 0), S("t", 0, "", "", -1, 1), S("t", 1, "2", "4", 1, 0),
	I("t", "3", "3", "3"), I("t", "1", "9", "9"), I("t", "5", "5", "2"),
	U("t", "1", "1", "9", "1"), U("t", "2", "3", "2", "2"), U("t", "4", "4", "4", "8"),
	D("t", "1"), D("t", "4"),
	I("w", "8", "", "y"), I("w", "9", "", ""), U("w", "6", "6", "", "y"),
	I("lw", "2", "Ab"), I("lw", "3", ""),
	U2("hd", []string{"1", "1"}, "1", "2"), D("ln", "20"),
	A(),
}

// syncInit is the initial content for the synchronous tier.
var syncInit = map[string][]Row{"t": t3["t"], "w": {{"6", "", "z"}, {"7", "", "y"}, {"5", "", ""}},
	"lw": {{"1", "aB"}, {"4", ""}}, "hd": hdln["hd"], "ln": hdln["ln"]}

// SyncScripts returns every script of length 1..maxLen over SyncOps (an
// explicit abort only as the last operation). maxLen == -2 is the quick-tier
// selection: every script of length 1 plus every [read, write] script.
func SyncScripts(maxLen int) [][]Op {
	var out [][]Op
	if maxLen == -2 {
		for _, o := range SyncOps {
			out = append(out, []Op{o})
		}
		for _, r := range SyncOps {
			if IsWrite(r.Kind) || r.Kind == OpAbort {
				continue
			}
			for _, w := range SyncOps {
				if IsWrite(w.Kind) {
					out = append(out, []Op{r, w})
				}
			}
		}
		return out
	}
	var rec func(cur []Op)
	rec = func(cur []Op) {
		if len(cur) > 0 {
			out = append(out, append([]Op{}, cur...))
		}
		if len(cur) == maxLen || (len(cur) > 0 && cur[len(cur)-1].Kind == OpAbort) {
			return
		}
		for _, o := range SyncOps {
			rec(append(cur, o))
		}
	}
	rec(nil)
	return out
}

// RunSyncPair executes one interleaving (chosen through ch) of scripts a and b.
func RunSyncPair(a, b []Op, or Oracles, ch *explore.Chooser) (string, *sched.Failure) {
	sc := &Scenario{Name: "sync", Init: syncInit, Clients: [][]Tran{{upd(a...)}, {upd(b...)}}}
	x := &exec{sc: sc, or: or, sync: true}
	zeros := []int{0, 0, 0, 0, 0, 0, 0, 0}
	vrand.Override = func(n int) int { return ch.Choose(n, zeros[:n], "coin") }
	defer func() { vrand.Override = nil }()

	x.db = db19.CreateDb(stor.HeapStor(8192))
	CreateTables(x.db)
	x.db.CheckerSync()
	x.init = MDB{}
	for _, t := range Schema {
		x.init[t.Name] = nil
	}
	ut := x.db.NewUpdateTran()
	for _, t := range Schema {
		for _, r := range sc.Init[t.Name] {
			ut.Output(nil, t.Name, mkrec(r))
			x.init[t.Name] = append(x.init[t.Name], r.clone())
		}
	}
	x.db.CommitMerge(ut)
	x.started = true

	scripts := [][]Op{a, b}
	uts := make([]*db19.UpdateTran, 2)
	trs := make([]*TranRec, 2)
	pos := []int{0, 0}
	done := []bool{false, false}
	for i := range scripts {
		x.syncStep++
		trs[i] = &TranRec{Client: i, Script: upd(scripts[i]...), Complete: "-", End: math.MaxInt, StepLo: x.syncStep}
		uts[i] = x.db.NewUpdateTran()
		trs[i].StepHi = x.syncStep
		x.trans = append(x.trans, trs[i])
		x.Monitor()
	}
	finish := func(i int) {
		tr := trs[i]
		if !tr.Aborted && !tr.ExplAbort {
			if e := try(func() { tr.Complete = db19.VerifSyncComplete(x.db, uts[i]) }); e != nil {
				// in the real pipeline this is the checker / merger goroutine dying (log.Fatal)
				x.failf("completing transaction %s panicked: %v", tr, e)
				tr.Complete = "panic"
			}
			tr.DoneStep = x.syncStep
		}
		tr.Start, tr.End = uts[i].VerifStartEnd()
		tr.HasUpdates = uts[i].VerifHasUpdates()
		done[i] = true
	}
	for (!done[0] || !done[1]) && x.fail == nil {
		i := 0
		switch {
		case done[0]:
			i = 1
		case done[1]:
			i = 0
		default:
			i = ch.Choose(2, zeros[:2], "who")
		}
		x.syncStep++
		tr := trs[i]
		if pos[i] == len(scripts[i]) {
			finish(i)
		} else {
			o := scripts[i][pos[i]]
			pos[i]++
			obs := ExecReal(uts[i], uts[i], o)
			tr.Obs = append(tr.Obs, obs)
			switch {
			case obs == ErrAborted:
				tr.Aborted = true
				finish(i)
			case o.Kind == OpAbort:
				tr.ExplAbort = true
				finish(i)
			case strings.HasPrefix(obs, "err:"):
				x.failf("op %s failed unexpectedly: %s", o, obs)
				uts[i].Abort()
				tr.ExplAbort = true
				finish(i)
			}
		}
		x.Monitor()
	}
	x.final = x.db.GetState()
	var obs strings.Builder
	for _, tr := range x.trans {
		obs.WriteString(tr.String())
		obs.WriteString(" ")
	}
	if x.fail != nil {
		return obs.String(), x.fail
	}
	o, f := x.judge(&obs)
	if f != nil {
		f.Msg = fmt.Sprintf("sync tier, scripts %v | %v: %s", a, b, f.Msg)
	}
	return o, f
}
