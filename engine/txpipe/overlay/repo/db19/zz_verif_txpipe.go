//go:build verif

package db19

import "github.com/apmckinlay/gsuneido/db19/meta"

// Accessors added for the /verif txpipe harness (build overlay only).

// VerifTranForState returns a read transaction over the given (possibly
// older) state instead of the current one.
func VerifTranForState(db *Database, st *DbState) *ReadTran {
	return &ReadTran{tran: tran{db: db, meta: st.Meta}}
}

// VerifStartEnd returns the checker's start and end sequence numbers of an
// update transaction (end is math.MaxInt while not committed).
func (t *UpdateTran) VerifStartEnd() (start, end int) {
	return t.ct.start, t.ct.end
}

// VerifHasUpdates reports whether the checker saw any write of this transaction.
func (t *UpdateTran) VerifHasUpdates() bool { return t.ct.hasUpdates }

// VerifSnapshot returns the state the update transaction captured at its start.
func (t *UpdateTran) VerifSnapshot() *DbState { return t.ct.state }

// VerifMeta returns the meta a read transaction reads from.
func (t *ReadTran) VerifMeta() *meta.Meta { return t.meta }

// VerifCheckState runs the database's own (quick or full) consistency check on
// a given state without going through the checker.
func VerifCheckState(st *DbState, full bool) error {
	if ec := checkState(st, checkfn(full), "", nil); ec != nil {
		return ec
	}
	return nil
}

// VerifSyncComplete completes an update transaction when the database runs
// with the synchronous checker (CheckerSync): the same steps the checker
// goroutine performs for a ckCommit message in checkco.go dispatch - commit in
// the checker, publish the transaction's state, merge - without channels.
// It returns "" on success, otherwise the failure text.
func VerifSyncComplete(db *Database, ut *UpdateTran) string {
	ck := db.ck.(*Check)
	tables := ck.commit(ut)
	if tables == nil {
		return ut.ct.failure.Load()
	}
	if len(tables) == 0 {
		return ""
	}
	ut.commit()
	merges := &mergeList{}
	merges.start(todo{tables: tables, meta: ut.meta})
	db.Merge(mergeSingle, merges)
	return ""
}
