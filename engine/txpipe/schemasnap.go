package txpipe

import (
	"fmt"
	"strings"

	"github.com/apmckinlay/gsuneido/core"
	"github.com/apmckinlay/gsuneido/db19"
	"github.com/apmckinlay/gsuneido/db19/index/iface"
	"github.com/apmckinlay/gsuneido/db19/meta/schema"
	"github.com/apmckinlay/gsuneido/db19/stor"

	"verif/lib"
)

// Snapshot stability across schema changes (sequential, synchronous checker).
//
// A transaction's snapshot includes the schema: tables that existed when it
// started stay readable, with the rows they had, whatever is created or dropped
// afterwards. The metadata is a persistent hash trie (32-way); tables created
// and dropped within one persist interval are really deleted from it (no
// tombstone), and deleting an entry that has colliding entries below it pulls
// one of them up - on nodes shared with older versions unless they are copied.
//
// Enumerated: n tables (n > 32, so that entries collide in the top node for
// every hash seed), a read transaction and an update transaction started after
// the creates, then the drop of every single table, of the first k and of the
// last k tables for every k; after every drop both transactions must still see
// every one of the n tables with its row.
func runSchemaSnapshots(c *lib.Ctx) {
	ns := lib.Pick(c, []int{34, 40}, []int{33, 34, 36, 40, 48, 70})
	cases := 0
	for _, persisted := range []bool{false, true} {
		for _, n := range ns {
			var plans [][]int
			for i := 0; i < n; i++ {
				plans = append(plans, []int{i})
			}
			for k := 2; k <= n; k += lib.Pick(c, 5, 1) {
				first, last := []int{}, []int{}
				for i := 0; i < k; i++ {
					first = append(first, i)
					last = append(last, n-1-i)
				}
				plans = append(plans, first, last)
			}
			for _, plan := range plans {
				if c.Expired() {
					c.Cap("schema snapshots: stopped after %d cases", cases)
					return
				}
				cases++
				if msg := schemaSnapshotCase(n, plan, persisted); msg != "" {
					c.Fail("", syncCase{}, "schema snapshot: %d tables%s, drop %v: %s", n,
						map[bool]string{true: " (persisted before the transactions start: dropped with tombstones)", false: " (created and dropped within one persist interval)"}[persisted], plan, msg)
					return
				}
			}
		}
	}
	c.Eval(cases)
	c.Set("schema_snapshot_cases", cases)
}

func schemaSnapshotCase(n int, plan []int, persisted bool) (msg string) {
	if e := try(func() { msg = schemaSnapshotCase1(n, plan, persisted) }); e != nil {
		return fmt.Sprint("panic: ", e)
	}
	return msg
}

func schemaSnapshotCase1(n int, plan []int, persisted bool) string {
	db := db19.CreateDb(stor.HeapStor(64 * 1024))
	db.CheckerSync()
	name := func(i int) string { return fmt.Sprintf("tmp%d", i) }
	// the persist clocks start at 0, where no table counts as "created in this
	// persist interval": persist once before anything else
	db.Create(&schema.Schema{Table: "base", Columns: []string{"k"},
		Indexes: []schema.Index{{Mode: 'k', Columns: []string{"k"}}}})
	db.PersistSync()
	for i := 0; i < n; i++ {
		db.Create(&schema.Schema{Table: name(i), Columns: []string{"k", "v"},
			Indexes: []schema.Index{{Mode: 'k', Columns: []string{"k"}}}})
		ut := db.NewUpdateTran()
		var rb core.RecordBuilder
		rb.Add(core.SuStr("r")).Add(core.SuStr(name(i)))
		ut.Output(nil, name(i), rb.Build())
		db.CommitMerge(ut)
	}
	if persisted {
		db.PersistSync()
	}
	rt := db.NewReadTran()
	ut := db.NewUpdateTran()
	defer ut.Abort()
	see := func(what string) string {
		var bad []string
		for i := 0; i < n; i++ {
			for _, tr := range []struct {
				kind string
				tran *db19.ReadTran
			}{{"read", rt}, {"update", &ut.ReadTran}} {
				e := try(func() {
					if tr.tran.GetSchema(name(i)) == nil {
						panic("no schema")
					}
					if ti := tr.tran.GetInfo(name(i)); ti == nil || ti.Nrows != 1 {
						panic("no info / wrong row count")
					}
					it := tr.tran.IndexIter(name(i), 0)
					it.Range(iface.All)
					it.Next(tr.tran)
					if it.Eof() {
						panic("no row")
					}
				})
				if e != nil {
					bad = append(bad, fmt.Sprintf("%s transaction no longer sees %s (%v)", tr.kind, name(i), e))
				}
			}
		}
		if len(bad) > 0 {
			if len(bad) > 3 {
				bad = append(bad[:3], fmt.Sprintf("... %d more", len(bad)-3))
			}
			return what + ": " + strings.Join(bad, "; ")
		}
		return ""
	}
	if m := see("before any drop"); m != "" {
		return m
	}
	for _, i := range plan {
		db.Drop(name(i))
		if m := see(fmt.Sprintf("after drop %s", name(i))); m != "" {
			return m
		}
	}
	return ""
}
