package txpipe

import (
	"fmt"
	"math"
	"sort"
	"strings"

	"github.com/apmckinlay/gsuneido/db19"
	"github.com/apmckinlay/gsuneido/db19/meta/schema"
	"github.com/apmckinlay/gsuneido/db19/stor"
	"github.com/apmckinlay/gsuneido/verifshim/vsched"

	"verif/sched"
)

// Scenario is a closed system: initial rows, client threads each running a
// list of transaction scripts one after the other, optional extras.
type Scenario struct {
	Name    string
	Group   string // which property's scenario group it belongs to
	Init    map[string][]Row
	Clients [][]Tran
	// Persist adds a thread that calls db.Persist() once.
	Persist bool
	// Ticks: number of checker clock ticks the environment may deliver early
	// (with MaxAge = 1 each tick can time out running transactions).
	Ticks    int
	MaxBound int
	// PersistAfter: the persister thread first waits for that many successful commits.
	PersistAfter int
	// Admin: schema changes run by an extra "admin" thread, in order.
	Admin []AdminOp
	// Heavy scenarios (3 clients: the free choices at blocking points multiply)
	// are explored in the thorough tier only.
	Heavy bool
	// FreeCost 1 = delay bounding (every non-default scheduling choice costs).
	FreeCost int
	// AutoDelay: see sched.Scenario.AutoDelay (set for the quick tier).
	AutoDelay int64
}

// AdminOp is a schema change executed by the admin thread while clients run.
type AdminOp struct {
	Kind  string // "altercreate" (add an index to a populated table) | "ensure"
	Table string
	Mode  byte     // index mode 'i' | 'u' | 'k'
	Cols  []string // index columns
}

// TranRec is what one executed transaction observed.
type TranRec struct {
	Client, Seq int
	Script      Tran
	Obs         []string // one per executed op
	Aborted     bool     // an op reported the transaction aborted
	ExplAbort   bool
	Complete    string // result of Complete(); "-" if not called
	Start, End  int    // checker sequence numbers (End = MaxInt if not committed)
	HasUpdates  bool
	StepLo      int // scheduler step before the start call
	StepHi      int // scheduler step after the start call returned
	DoneStep    int // scheduler step at which Complete() returned
	// AbortedThenCompleted: the script called Abort() and then Complete()
	AbortedThenCompleted bool
	Snapshot             *db19.DbState
	committed            bool
	wroteSomeRow         bool
}

func (tr *TranRec) String() string {
	var sb strings.Builder
	fmt.Fprintf(&sb, "c%d.%d{", tr.Client, tr.Seq)
	for i, o := range tr.Script.Ops {
		if i >= len(tr.Obs) {
			break
		}
		fmt.Fprintf(&sb, "%s -> %s; ", o, tr.Obs[i])
	}
	fmt.Fprintf(&sb, "complete=%q}", tr.Complete)
	return sb.String()
}

// pubState is one published database state as seen by the monitor.
type pubState struct {
	ptr     *db19.DbState
	step    int
	content MDB
	canon   string
}

// Oracles selects which oracles an execution evaluates.
type Oracles struct {
	Serializable bool // C01
	Snapshot     bool // C02
	Atomic       bool // C03
	IndexAgree   bool // C06
	Constraints  bool // C07
	MergePersist bool // C16
	ForeignKeys  bool // C08 (concurrent half)
}

type exec struct {
	sc                  *Scenario
	or                  Oracles
	db                  *db19.Database
	init                MDB
	trans               []*TranRec
	states              []pubState
	last                *db19.DbState
	final               *db19.DbState
	fail                *sched.Failure
	oldAge              int
	started             bool
	nFinished, nWaiting int // clients that are done / blocked in a wait op
	adminObs            []string
	nCommitted          int  // successfully completed update transactions so far
	persistDone         bool // the persister thread's forced persist returned
	sync                bool // synchronous tier: no scheduler, steps counted by the driver
	syncStep            int
}

// now is the logical time used to relate transactions to published states.
func (x *exec) now() int {
	if x.sync {
		return x.syncStep
	}
	return vsched.Steps()
}

func (x *exec) failf(format string, a ...any) {
	if x.fail == nil {
		x.fail = &sched.Failure{Msg: fmt.Sprintf(format, a...)}
	}
}

// Main is thread 0 of the execution.
func (x *exec) Main() {
	vsched.NoPreempt(true)
	x.oldAge = db19.MaxAge
	if x.sc.Ticks > 0 {
		db19.MaxAge = 1
	}
	x.db = db19.CreateDb(stor.HeapStor(8192))
	CreateTables(x.db)
	x.init = MDB{}
	for _, t := range Schema {
		x.init[t.Name] = nil
	}
	if len(x.sc.Init) > 0 {
		x.db.CheckerSync()
		ut := x.db.NewUpdateTran()
		for _, t := range Schema {
			for _, r := range x.sc.Init[t.Name] {
				ut.Output(nil, t.Name, mkrec(r))
				x.init[t.Name] = append(x.init[t.Name], r.clone())
			}
		}
		x.db.CommitMerge(ut)
		// the merger takes the state it is started with as the persisted one (in
		// production StartConcur follows OpenDb / CreateDb directly): persist the
		// initial rows before it starts, else a run in which nothing commits
		// would end with a "persisted" state whose btrees lack them
		x.db.PersistSync()
	}
	db19.StartConcur(x.db, 10_000_000_000) // persist ticker: 10 s of virtual time
	x.started = true
	vsched.Settle() // park all pipeline goroutines at their first blocking operation
	vsched.NoPreempt(false)

	var wg vsched.WaitGroup
	for ci, scripts := range x.sc.Clients {
		ci, scripts := ci, scripts
		wg.Add(1)
		vsched.GoNamed(fmt.Sprintf("client%d", ci), false, func() {
			defer wg.Done()
			defer func() { x.nFinished++ }()
			for si, s := range scripts {
				x.runTran(ci, si, s)
			}
		})
	}
	if len(x.sc.Admin) > 0 {
		wg.Add(1)
		vsched.GoNamed("admin", false, func() {
			defer wg.Done()
			for _, a := range x.sc.Admin {
				sc := &schema.Schema{Table: a.Table,
					Indexes: []schema.Index{{Mode: a.Mode, Columns: append([]string{}, a.Cols...)}}}
				e := try(func() {
					switch a.Kind {
					case "altercreate":
						x.db.AlterCreate(sc)
					case "ensure":
						x.db.Ensure(sc)
					}
				})
				x.adminObs = append(x.adminObs, fmt.Sprint(a.Kind, " ", a.Table, a.Cols, " -> ", e))
			}
		})
	}
	if x.sc.Persist {
		wg.Add(1)
		vsched.GoNamed("persister", false, func() {
			defer wg.Done()
			if n := x.sc.PersistAfter; n > 0 {
				vsched.WaitUntil("wait-commits", func() bool { return x.nCommitted >= n || x.nFinished+x.nWaiting >= len(x.sc.Clients) })
			}
			x.db.Persist()
			x.persistDone = true
		})
	}
	wg.Wait()
	// quiescence: a forced persist returns after all queued merges were applied
	vsched.NoPreempt(true)
	x.final = x.db.Persist()
	vsched.NoPreempt(false)
}

// wait blocks the calling client until the named harness event happened (or all
// other clients are done, so that a scenario can never deadlock on it).
func (x *exec) wait(o Op) {
	ev := ""
	if len(o.Vals) > 0 {
		ev = o.Vals[0]
	}
	x.nWaiting++
	defer func() { x.nWaiting-- }()
	vsched.WaitUntil("wait-"+ev, func() bool {
		if ev == "persist" {
			return x.persistDone
		}
		var n int
		if _, err := fmt.Sscanf(ev, "commits:%d", &n); err == nil {
			return x.nCommitted >= n
		}
		return true
	})
}

func (x *exec) runTran(ci, si int, s Tran) {
	tr := &TranRec{Client: ci, Seq: si, Script: s, Complete: "-", End: math.MaxInt}
	x.trans = append(x.trans, tr)
	tr.StepLo = x.now()
	if s.ReadOnly {
		rt := x.db.NewReadTran()
		tr.StepHi = x.now()
		for _, o := range s.Ops {
			if o.Kind == OpWait {
				x.wait(o)
				tr.Obs = append(tr.Obs, "ok")
				continue
			}
			tr.Obs = append(tr.Obs, ExecReal(rt, nil, o))
		}
		tr.Complete = rt.Complete()
		return
	}
	ut := x.db.NewUpdateTran()
	tr.StepHi = x.now()
	tr.Snapshot = ut.VerifSnapshot()
	for _, o := range s.Ops {
		if o.Kind == OpWait {
			x.wait(o)
			tr.Obs = append(tr.Obs, "ok")
			continue
		}
		obs := ExecReal(ut, ut, o)
		tr.Obs = append(tr.Obs, obs)
		if o.Kind == OpAbortGoOn {
			tr.AbortedThenCompleted = true
			break
		}
		if obs == ErrAborted {
			tr.Aborted = true
			break
		}
		if o.Kind == OpAbort {
			tr.ExplAbort = true
			break
		}
		if strings.HasPrefix(obs, "err:") {
			x.failf("client %d: op %s failed unexpectedly: %s", ci, o, obs)
			ut.Abort()
			tr.ExplAbort = true
			break
		}
	}
	if !tr.Aborted && !tr.ExplAbort {
		tr.Complete = ut.Complete()
		tr.DoneStep = x.now()
		if tr.Complete == "" {
			x.nCommitted++
		}
	}
	tr.Start, tr.End = ut.VerifStartEnd()
	tr.HasUpdates = ut.VerifHasUpdates()
}

// Monitor is called between all visible operations: it records every newly
// published state and evaluates the per-state invariants.
func (x *exec) Monitor() {
	if !x.started || x.fail != nil {
		return
	}
	cur := x.db.GetState()
	if cur == x.last {
		return
	}
	x.last = cur
	x.observe(cur)
}

func (x *exec) observe(cur *db19.DbState) {
	var content MDB
	if e := try(func() { content = Content(x.db, cur) }); e != nil {
		x.failf("reading a published state panicked: %v", e)
		return
	}
	ps := pubState{ptr: cur, step: x.now(), content: content, canon: content.Canon()}
	x.states = append(x.states, ps)
	if x.or.IndexAgree {
		x.checkIndexes(cur)
	}
	if x.or.Constraints {
		x.checkConstraints(content)
	}
	if x.or.Atomic || x.or.MergePersist {
		x.checkInfo(cur, content)
	}
	if x.or.ForeignKeys {
		x.checkFkeys(content)
	}
}

// checkIndexes (C06): every index of a table holds exactly the same record
// offsets, and every entry's key is the key of its row.
func (x *exec) checkIndexes(st *db19.DbState) {
	rt := db19.VerifTranForState(x.db, st)
	for _, t := range Schema {
		sc := rt.GetSchema(t.Name)
		var base []uint64
		for i := range sc.Indexes { // the real schema: indexes may have been added
			var keys []string
			var offs []uint64
			if e := try(func() { keys, offs = indexEntries(rt, t.Name, i) }); e != nil {
				x.failf("iterating index %d of %s panicked: %v", i, t.Name, e)
				return
			}
			for j := 1; j < len(keys); j++ {
				if keys[j-1] >= keys[j] {
					x.failf("index %d of %s is not strictly ordered at entry %d", i, t.Name, j)
					return
				}
			}
			for j, off := range offs {
				rec := rt.GetRecord(off)
				if want := sc.Indexes[i].Ixspec.Key(rec); want != keys[j] {
					x.failf("index %d of %s: entry key %q does not match its row %v (key %q)",
						i, t.Name, keys[j], rowOf(t, rec), want)
					return
				}
			}
			so := append([]uint64{}, offs...)
			sort.Slice(so, func(a, b int) bool { return so[a] < so[b] })
			if i == 0 {
				base = so
				continue
			}
			if len(so) != len(base) {
				x.failf("table %s: index %d has %d entries but index 0 has %d", t.Name, i, len(so), len(base))
				return
			}
			for j := range so {
				if so[j] != base[j] {
					x.failf("table %s: index %d and index 0 reference different rows", t.Name, i)
					return
				}
			}
		}
	}
}

// checkConstraints (C07): no duplicate key / non-empty unique values.
func (x *exec) checkConstraints(content MDB) {
	for _, t := range Schema {
		for _, ix := range t.Indexes {
			if ix.Mode == 'i' {
				continue
			}
			if ix.Mode == 'k' && len(ix.Cols) == 0 {
				if len(content[t.Name]) > 1 {
					x.failf("table %s with key() holds %d rows", t.Name, len(content[t.Name]))
				}
				continue
			}
			seen := map[string]bool{}
			for _, r := range content[t.Name] {
				v := vals(t, r, ix.Cols)
				if ix.Mode == 'u' && allEmpty(v) {
					continue
				}
				k := strings.Join(v, "\x00")
				if seen[k] {
					x.failf("table %s: two rows share %s %v = %v in a published state: %s",
						t.Name, map[byte]string{'k': "key", 'u': "unique index"}[ix.Mode], ix.Cols, v, content.Canon())
					return
				}
				seen[k] = true
			}
		}
	}
}

// checkFkeys: every non-empty foreign key value has its target row.
func (x *exec) checkFkeys(content MDB) {
	for _, t := range Schema {
		for _, ix := range t.Indexes {
			if ix.FkTable == "" {
				continue
			}
			for _, r := range content[t.Name] {
				v := vals(t, r, ix.Cols)
				if !allEmpty(v) && content.Lookup(ix.FkTable, 0, v) == nil {
					x.failf("published state has row %s(%s) whose foreign key %v has no target in %s: %s",
						t.Name, r, v, ix.FkTable, content.Canon())
					return
				}
			}
		}
	}
}

// checkInfo (C03 iii / C16): row count and size bookkeeping of every table.
func (x *exec) checkInfo(st *db19.DbState, content MDB) {
	for _, t := range Schema {
		ti := st.Meta.GetRoInfo(t.Name)
		if ti == nil {
			x.failf("table %s has no info in a published state", t.Name)
			return
		}
		n := len(content[t.Name])
		var size int64
		for _, r := range content[t.Name] {
			size += int64(len(mkrec(r)))
		}
		if ti.Nrows != n || ti.Size != size {
			x.failf("table %s: info says %d rows / %d bytes but the index holds %d rows / %d bytes",
				t.Name, ti.Nrows, ti.Size, n, size)
			return
		}
		dn, ds := ti.BtreeNrows, ti.BtreeSize
		for _, d := range ti.Deltas {
			dn += d.Nrows
			ds += d.Size
		}
		if dn != ti.Nrows || ds != ti.Size {
			x.failf("table %s: btree + deltas = %d rows / %d bytes but info says %d / %d",
				t.Name, dn, ds, ti.Nrows, ti.Size)
			return
		}
	}
}

// committedWriters returns the successfully completed transactions that
// changed something, in commit order.
func (x *exec) committedInOrder() []*TranRec {
	var cs []*TranRec
	for _, tr := range x.trans {
		if tr.Script.ReadOnly {
			continue
		}
		if tr.Complete == "" && tr.End != math.MaxInt {
			tr.committed = true
			cs = append(cs, tr)
		}
	}
	sort.Slice(cs, func(i, j int) bool { return cs[i].End < cs[j].End })
	return cs
}

func wrote(tr *TranRec) bool {
	for i, o := range tr.Script.Ops {
		if i < len(tr.Obs) && IsWrite(o.Kind) && tr.Obs[i] == "ok" {
			return true
		}
	}
	return false
}

// Finish judges the execution.
func (x *exec) Finish(out vsched.Outcome) (string, *sched.Failure) {
	db19.MaxAge = x.oldAge
	var obs strings.Builder
	for _, tr := range x.trans {
		obs.WriteString(tr.String())
		obs.WriteString(" ")
	}
	for _, a := range x.adminObs {
		obs.WriteString("admin{" + a + "} ")
	}
	if x.fail != nil {
		return obs.String(), x.fail
	}
	if out.Status != "ok" {
		if out.Status == "horizon" {
			return obs.String(), nil // counted as a cap by the explorer glue
		}
		return obs.String(), &sched.Failure{Msg: fmt.Sprintf("execution ended with %s: %s", out.Status, out.Detail)}
	}
	return x.judge(&obs)
}

// judge evaluates the end-of-execution oracles (shared by both tiers).
func (x *exec) judge(obs *strings.Builder) (string, *sched.Failure) {
	if x.final == nil {
		return obs.String(), &sched.Failure{Msg: "final persist did not return a state"}
	}
	if x.last != x.db.GetState() {
		x.last = x.db.GetState()
		x.observe(x.last)
	}
	if x.fail != nil {
		return obs.String(), x.fail
	}
	finalContent := Content(x.db, x.final)
	fmt.Fprintf(obs, "final=%s", finalContent.Canon())
	cs := x.committedInOrder()

	// a transaction whose Abort() returned must never commit
	if x.or.Atomic || x.or.Serializable {
		for _, tr := range x.trans {
			if tr.AbortedThenCompleted && tr.Complete == "" {
				return obs.String(), &sched.Failure{Msg: fmt.Sprintf(
					"transaction %s was aborted (Abort() returned) and its later Complete() reported success", tr)}
			}
		}
	}

	// ---- write-log replay: model state after each commit (C03 / C16 / C07 / final)
	models := []MDB{x.init.Clone()}
	m := x.init.Clone()
	for _, tr := range cs {
		if !wrote(tr) {
			continue
		}
		for i, o := range tr.Script.Ops {
			if i < len(tr.Obs) && IsWrite(o.Kind) && tr.Obs[i] == "ok" {
				if r := m.Apply(o); r != "ok" {
					if x.or.Serializable || x.or.Atomic || x.or.Constraints || x.or.ForeignKeys {
						return obs.String(), &sched.Failure{Msg: fmt.Sprintf(
							"committed transaction %s performed %s successfully, but replayed in commit order on the reference model it gives %q (model before: %s)",
							tr, o, r, m.Canon())}
					}
				}
			}
		}
		models = append(models, m.Clone())
	}
	if x.or.Atomic || x.or.MergePersist || x.or.Serializable {
		// every published state equals a model prefix, monotonically
		k := 0
		prefixOf := make([]int, len(x.states))
		for si, ps := range x.states {
			found := -1
			for j := k; j < len(models); j++ {
				if models[j].Canon() == ps.canon {
					found = j
					break
				}
			}
			if found < 0 {
				return obs.String(), &sched.Failure{Msg: fmt.Sprintf(
					"a published state (step %d) is not the result of any prefix of the committed transactions: state %s; prefixes from #%d on: %s",
					ps.step, ps.canon, k, canonList(models[k:]))}
			}
			k = found
			prefixOf[si] = found
		}
		// truthful outcome: once Complete() returned "" the transaction's writes are
		// in the current state and in every later one
		if x.or.Atomic {
			j := 0
			for _, tr := range cs {
				if !wrote(tr) {
					continue
				}
				j++ // tr is the j-th committed writer: contained in models[j] and later
				cur := -1
				for si, ps := range x.states {
					if ps.step <= tr.DoneStep {
						cur = si
					}
				}
				have := 0
				if cur >= 0 {
					have = prefixOf[cur]
				}
				// states equal as content to an earlier prefix may also equal a later one
				// (e.g. a transaction that restores a row): accept if ANY prefix >= j matches
				ok := have >= j
				if !ok && cur >= 0 {
					for jj := j; jj < len(models); jj++ {
						if models[jj].Canon() == x.states[cur].canon {
							ok = true
						}
					}
				}
				if !ok {
					canon := x.init.Canon()
					if cur >= 0 {
						canon = x.states[cur].canon
					}
					return obs.String(), &sched.Failure{Msg: fmt.Sprintf(
						"Complete() of %s returned success at step %d but the database state current at that moment (%s) does not contain its writes",
						tr, tr.DoneStep, canon)}
				}
			}
		}
		if want := models[len(models)-1].Canon(); finalContent.Canon() != want {
			return obs.String(), &sched.Failure{Msg: fmt.Sprintf(
				"final database %s differs from the committed transactions applied in order %s (lost or phantom update)",
				finalContent.Canon(), want)}
		}
	}
	// failed / aborted transactions leave no trace: implied by prefix + final equality.

	// ---- C01: serial replay of the scripts in commit order
	if x.or.Serializable {
		m := x.init.Clone()
		for _, tr := range cs {
			if !wrote(tr) {
				continue // write-less transactions are snapshot readers (C02)
			}
			for i, o := range tr.Script.Ops {
				if i >= len(tr.Obs) {
					break
				}
				want := m.Apply(o)
				if want != tr.Obs[i] {
					return obs.String(), &sched.Failure{Msg: fmt.Sprintf(
						"not serializable in commit order: %s observed %q for %s, but executed serially after its predecessors it gives %q (serial state before the transaction's op: %s)",
						tr, tr.Obs[i], o, want, m.Canon())}
				}
			}
		}
	}

	// ---- C02: every transaction read one stable snapshot that was current at its start
	if x.or.Snapshot {
		for _, tr := range x.trans {
			if f := x.checkSnapshot(tr); f != nil {
				return obs.String(), f
			}
		}
	}

	// ---- quiescent structural checks
	if x.or.IndexAgree || x.or.MergePersist {
		if e := try(func() {
			if err := db19.VerifCheckState(x.final, true); err != nil {
				panic(err)
			}
		}); e != nil {
			return obs.String(), &sched.Failure{Msg: fmt.Sprintf("full check of the final persisted state failed: %v", e)}
		}
	}
	if x.or.IndexAgree || x.or.MergePersist {
		// differential: the state as re-read from storage at the persisted offset
		// must have the same content and agreeing indexes as the live state
		var re *db19.DbState
		if e := try(func() { re = db19.ReadState(x.db.Store, x.final.Off) }); e != nil {
			return obs.String(), &sched.Failure{Msg: fmt.Sprintf("re-reading the persisted state failed: %v", e)}
		}
		var rc MDB
		if e := try(func() { rc = Content(x.db, re) }); e != nil {
			return obs.String(), &sched.Failure{Msg: fmt.Sprintf("reading the re-read persisted state panicked: %v", e)}
		}
		if rc.Canon() != finalContent.Canon() {
			return obs.String(), &sched.Failure{Msg: fmt.Sprintf(
				"the persisted state re-read from storage holds %s but the live state it was written from holds %s", rc.Canon(), finalContent.Canon())}
		}
		x.checkIndexes(re)
		if x.fail != nil {
			x.fail.Msg = "in the persisted state re-read from storage: " + x.fail.Msg
			return obs.String(), x.fail
		}
		if e := try(func() {
			if err := db19.VerifCheckState(re, true); err != nil {
				panic(err)
			}
		}); e != nil {
			return obs.String(), &sched.Failure{Msg: fmt.Sprintf("full check of the persisted state re-read from storage failed: %v", e)}
		}
	}
	if x.or.MergePersist {
		if e := try(func() { x.final.Meta.CheckAllMerged() }); e != nil {
			return obs.String(), &sched.Failure{Msg: fmt.Sprintf("after the final persist not everything is merged: %v", e)}
		}
	}
	return obs.String(), nil
}

func canonList(ms []MDB) string {
	var s []string
	for _, m := range ms {
		s = append(s, m.Canon())
	}
	return strings.Join(s, " || ")
}

// checkSnapshot: the transaction's reads, overlaid with its own writes, must
// be explained by ONE published state that was current at some moment between
// the call that started the transaction and its return.
func (x *exec) checkSnapshot(tr *TranRec) *sched.Failure {
	// candidate states: current at any step in [StepLo-1, StepHi+1]
	var cands []pubState
	for i, ps := range x.states {
		nextStep := math.MaxInt
		if i+1 < len(x.states) {
			nextStep = x.states[i+1].step
		}
		if ps.step <= tr.StepHi+1 && nextStep >= tr.StepLo-1 {
			cands = append(cands, ps)
		}
	}
	if len(x.states) == 0 || x.states[0].step > tr.StepLo-1 {
		// the initial state (published before the monitor started watching)
		cands = append([]pubState{{content: x.init, canon: x.init.Canon(), step: 0}}, cands...)
	}
	var firstMismatch string
	for _, ps := range cands {
		m := ps.content.Clone()
		ok := true
		for i, o := range tr.Script.Ops {
			if i >= len(tr.Obs) {
				break
			}
			if tr.Obs[i] == ErrAborted {
				break
			}
			want := m.Apply(o)
			if want != tr.Obs[i] {
				ok = false
				if firstMismatch == "" {
					firstMismatch = fmt.Sprintf("against snapshot %s: %s gave %q, expected %q", ps.canon, o, tr.Obs[i], want)
				}
				break
			}
		}
		if ok {
			return nil
		}
	}
	return &sched.Failure{Msg: fmt.Sprintf(
		"transaction %s did not read a stable snapshot that was current at its start (%d candidate states; %s)",
		tr, len(cands), firstMismatch)}
}

// NewExecution builds a sched.Scenario for the given scenario and oracles.
func NewScenario(sc *Scenario, or Oracles) *sched.Scenario {
	return &sched.Scenario{Name: sc.Name, MaxBound: sc.MaxBound, TimerBudget: sc.Ticks, MaxSteps: 60000,
		FreeCost:  sc.FreeCost,
		AutoDelay: sc.AutoDelay, AutoDelayBound: 2,
		Symmetric: []string{"startMergeWorkers", "startExecPersistMulti"},
		New:       func() sched.Execution { return &exec{sc: sc, or: or} }}
}
