package txpipe

import (
	"fmt"
	"strings"

	"github.com/apmckinlay/gsuneido/core"
	"github.com/apmckinlay/gsuneido/db19"
	"github.com/apmckinlay/gsuneido/db19/index"
	"github.com/apmckinlay/gsuneido/db19/index/ixkey"
	"github.com/apmckinlay/gsuneido/db19/meta/schema"
)

func init() {
	db19.MakeSuTran = func(ut *db19.UpdateTran) *core.SuTran {
		return core.NewSuTran(nil, true)
	}
}

// CreateTables creates the scenario schema in db (which must not have a
// checker yet, so the creation runs inline).
func CreateTables(db *db19.Database) {
	for _, t := range Schema {
		sc := &schema.Schema{Table: t.Name, Columns: append([]string{}, t.Cols...)}
		for _, ix := range t.Indexes {
			six := schema.Index{Mode: ix.Mode, Columns: append([]string{}, ix.Cols...)}
			if ix.FkTable != "" {
				tgt := tableDef(ix.FkTable)
				six.Fk = schema.Fkey{Table: ix.FkTable, Mode: ix.FkMode,
					Columns: append([]string{}, tgt.Indexes[0].Cols...)}
			}
			sc.Indexes = append(sc.Indexes, six)
		}
		db.Create(sc)
	}
}

func mkrec(r Row) core.Record {
	var b core.RecordBuilder
	for _, v := range r {
		if v == "" {
			b.AddRaw("")
		} else {
			b.Add(core.SuStr(v))
		}
	}
	return b.Trim().Build()
}

func rowOf(t *Table, rec core.Record) Row {
	r := make(Row, len(t.Cols))
	for i := range t.Cols {
		r[i] = rec.GetStr(i)
	}
	return r
}

// tranAPI is what scripts need from ReadTran / UpdateTran.
type tranAPI interface {
	GetSchema(table string) *schema.Schema
	Lookup(table string, iIndex int, key string) *core.DbRec
	IndexIter(table string, iIndex int) index.IndexIter
	GetRecord(off uint64) core.Record
	GetIndexI(table string, iIndex int) *index.Overlay
	Read(table string, iIndex int, from, to string)
	Num() int
}

// probeKey encodes the key for index ix of table t from the given values of
// the index columns (other columns empty), using the table's own key spec.
func probeKey(sc *schema.Schema, t *Table, ix int, v []string) string {
	r := make(Row, len(t.Cols))
	for i, c := range t.Indexes[ix].Cols {
		if i < len(v) {
			r[t.col(c)] = v[i]
		}
	}
	return sc.Indexes[ix].Ixspec.Key(mkrec(r))
}

// ErrAborted is the observation of an op that found its transaction aborted.
const ErrAborted = "aborted"

func classify(e any) string {
	s := fmt.Sprint(e)
	switch {
	case strings.Contains(s, "duplicate key"):
		return "dup"
	case strings.Contains(s, "blocked by foreign key"):
		return "fk"
	case strings.Contains(s, "transaction aborted"), strings.Contains(s, "transaction already ended"):
		return ErrAborted
	}
	return "err:" + s
}

func try(f func()) (e any) {
	defer func() {
		if r := recover(); r != nil {
			e = r
		}
	}()
	f()
	return nil
}

// ExecReal runs one op on a real transaction and returns its observation in
// the same format as MDB.Apply.
func ExecReal(tr tranAPI, ut *db19.UpdateTran, o Op) (obs string) {
	var t *Table
	var sc *schema.Schema
	if o.Kind != OpAbort && o.Kind != OpAbortGoOn && o.Kind != OpWait {
		t = tableDef(o.Table)
		sc = tr.GetSchema(o.Table)
	}
	e := try(func() {
		switch o.Kind {
		case OpLookup:
			dr := tr.Lookup(o.Table, o.Ix, probeKey(sc, t, o.Ix, o.Vals))
			if dr == nil {
				obs = "nf"
			} else {
				obs = "row(" + rowOf(t, dr.Record).String() + ")"
			}
		case OpScan:
			it := tr.IndexIter(o.Table, o.Ix)
			if o.Lo != "" || o.Hi != "" {
				it.Range(index.Range{Org: probeKey(sc, t, o.Ix, []string{o.Lo}),
					End: probeKey(sc, t, o.Ix, []string{o.Hi})})
			} else {
				it.Range(index.Range{Org: ixkey.Min, End: ixkey.Max})
			}
			var rows []Row
			eof := false
			for o.Limit == 0 || len(rows) < o.Limit {
				if o.Dir < 0 {
					it.Prev(tr)
				} else {
					it.Next(tr)
				}
				if it.Eof() {
					eof = true
					break
				}
				_, off := it.Cur()
				rows = append(rows, rowOf(t, tr.GetRecord(off)))
			}
			obs = scanObs(rows, eof)
		case OpInsert:
			ut.Output(nil, o.Table, mkrec(o.Row))
			obs = "ok"
		case OpUpdate:
			dr := ut.Lookup(o.Table, 0, probeKey(sc, t, 0, o.Vals))
			if dr == nil {
				obs = "nf"
				return
			}
			ut.Update(nil, o.Table, dr.Off, mkrec(o.Row))
			obs = "ok"
		case OpDelete:
			dr := ut.Lookup(o.Table, 0, probeKey(sc, t, 0, o.Vals))
			if dr == nil {
				obs = "nf"
				return
			}
			ut.Delete(nil, o.Table, dr.Off)
			obs = "ok"
		case OpAbort, OpAbortGoOn:
			ut.Abort()
			obs = "abort"
		}
	})
	if e != nil {
		return classify(e)
	}
	return obs
}

// Content extracts the logical content of every table of a state through the
// given index number (0 = first index) using a read transaction over that state.
func Content(db *db19.Database, st *db19.DbState) MDB {
	rt := db19.VerifTranForState(db, st)
	m := MDB{}
	for _, t := range Schema {
		m[t.Name] = scanIndex(rt, t, 0)
	}
	return m
}

func scanIndex(rt *db19.ReadTran, t *Table, ix int) []Row {
	var rows []Row
	it := rt.IndexIter(t.Name, ix)
	for it.Next(rt); !it.Eof(); it.Next(rt) {
		_, off := it.Cur()
		rows = append(rows, rowOf(t, rt.GetRecord(off)))
	}
	return rows
}

// indexEntries returns (key, offset) pairs of one index of a state.
func indexEntries(rt *db19.ReadTran, table string, ix int) (keys []string, offs []uint64) {
	it := rt.IndexIter(table, ix)
	for it.Next(rt); !it.Eof(); it.Next(rt) {
		k, off := it.Cur()
		keys = append(keys, k)
		offs = append(offs, off)
	}
	return
}
