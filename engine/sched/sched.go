// Package sched glues the controlled scheduler (verifshim/vsched, engine E1)
// to the explorer (engine E0) and to lib: it explores every schedule of a
// scenario within a preemption/deviation bound, iterating the bound 0,1,2,…,
// checks determinism of replays, counts distinct outcomes and turns harness
// failures into replayable violations.
package sched

import (
	"encoding/json"
	"fmt"
	"strings"
	"time"

	"github.com/apmckinlay/gsuneido/verifshim/vsched"

	"verif/explore"
	"verif/lib"
)

// Failure is what a scenario execution reports when the oracle fails.
type Failure struct {
	Class string
	Msg   string
}

// Scenario is one closed system: Body is run as thread 0 under the scheduler
// for every explored schedule. It must build all its state afresh, spawn its
// client threads with vsched.GoNamed(name, false, fn) and return the
// observation (canonical string of everything observed) — Check is called
// after the execution ended (outside the scheduler) to judge it.
type Scenario struct {
	Name        string
	MaxBound    int // explore bounds 0..MaxBound
	TimerBudget int
	MaxSteps    int
	Symmetric   []string // see vsched.Config.Symmetric
	StartMs     int64    // virtual clock start (unix ms); 0 = default
	FreeCost    int      // see vsched.Config.FreeSwitchCost
	NoStmtYield bool     // see vsched.Config.NoStmtYield
	// AutoDelay > 0: if the schedules with 0 preemptions alone (the free choices at
	// blocking points) number more than AutoDelay, the scenario is explored with
	// delay bounding (FreeCost = 1) and bound AutoDelayBound instead.
	AutoDelay      int64
	AutoDelayBound int
	// New returns a fresh per-execution state.
	New func() Execution
}

// Execution is one run of a scenario.
type Execution interface {
	// Main is thread 0.
	Main()
	// Monitor (optional; may be a no-op) is called between visible operations.
	Monitor()
	// Finish is called after the scheduler returned; it returns the
	// observation string and a failure (nil if the oracle is satisfied).
	Finish(out vsched.Outcome) (obs string, f *Failure)
}

type adapter struct{ ch *explore.Chooser }

func (a adapter) Choose(p *vsched.Point) int { return a.ch.Choose(p.N, p.Costs, p.Label) }

// Case is the replayable description of one execution.
type Case struct {
	Scenario string   `json:"scenario"`
	Choices  []int    `json:"choices"`
	Trace    []string `json:"trace,omitempty"`
}

// RunOne executes the scenario once with the given choice prefix.
func RunOne(sc *Scenario, prefix []int, trace bool) (obs string, f *Failure, rec explore.Exec, out vsched.Outcome, tr []string) {
	ch := &explore.Chooser{Prefix: prefix}
	x := sc.New()
	out = vsched.Run(vsched.Config{MaxSteps: sc.MaxSteps, TimerBudget: sc.TimerBudget,
		Monitor: x.Monitor, Trace: trace, Symmetric: sc.Symmetric, StartMs: sc.StartMs, FreeSwitchCost: sc.FreeCost, NoStmtYield: sc.NoStmtYield}, adapter{ch}, x.Main)
	obs, f = x.Finish(out)
	if ch.Diverge != "" && f == nil {
		f = &Failure{Class: "", Msg: "NONDETERMINISM: " + ch.Diverge}
	}
	if trace {
		tr = append([]string{}, vsched.Trace()...)
	}
	return obs, f, ch.Rec, out, tr
}

// Explore explores one scenario within c's budget, sharded by c.Shard.
func Explore(c *lib.Ctx, sc *Scenario) {
	ExploreAll(c, []*Scenario{sc})
}

// ExploreAll explores several scenarios bound-major: every scenario with
// bound 0, then every scenario with bound 1, ... so that a time budget that
// runs out cuts the deepest bound of the scenarios, never whole scenarios at
// the end of the list.
func ExploreAll(c *lib.Ctx, scs []*Scenario) {
	var sts []*expState
	maxBound := 0
	for _, sc := range scs {
		if c.Expired() {
			c.Cap("scenario %s not started", sc.Name)
			continue
		}
		sts = append(sts, prepare(c, sc))
		maxBound = max(maxBound, sc.MaxBound)
	}
	for bound := 0; bound <= maxBound; bound++ {
		var round []*expState
		for _, st := range sts {
			if !st.done && bound <= st.sc.MaxBound {
				round = append(round, st)
			}
		}
		// within a round every scenario gets an equal share of the budget that is
		// left; what a scenario does not use goes to the ones after it
		for i, st := range round {
			slice := time.Now().Add(c.Remaining() / time.Duration(len(round)-i))
			st.runBound(c, bound, func() bool {
				if c.Expired() {
					return true
				}
				if len(round)-i > 1 && time.Now().After(slice) {
					st.sliced = true
					return true
				}
				return false
			})
		}
	}
	// budget left over: the scenarios that were cut by their share (not by the
	// budget) start their unfinished bound again and go on from there
	for _, st := range sts {
		if !st.sliced {
			continue
		}
		if c.Expired() {
			c.Cap("scenario %s: bound %d not completed on shard %d (%d executions)", st.sc.Name, st.cutBound, c.Shard, st.cutExecs)
			continue
		}
		st.sliced, st.done = false, false
		for bound := st.cutBound; bound <= st.sc.MaxBound && !st.done; bound++ {
			st.runBound(c, bound, c.Expired)
		}
	}
	for _, st := range sts {
		st.finish(c)
	}
}

type expState struct {
	sc       *Scenario
	outcomes map[uint64]bool
	done     bool
	sliced   bool // cut by its share of the budget in a round
	cutBound int  // the bound that was cut
	cutExecs int  // executions counted for the cut bound so far
	o1       string
	points   int
}

func prepare(c *lib.Ctx, sc *Scenario) *expState {
	// determinism guard: the default schedule twice
	o1, _, r1, _, _ := RunOne(sc, nil, false)
	o2, _, r2, _, _ := RunOne(sc, nil, false)
	if o1 != o2 || len(r1.Points) != len(r2.Points) {
		lib.Infra("scenario %s is not deterministic under replay:\n%s\nvs\n%s (points %d vs %d)",
			sc.Name, o1, o2, len(r1.Points), len(r2.Points))
	}
	if sc.AutoDelay > 0 && sc.FreeCost == 0 {
		probe := explore.Explore(func(ch *explore.Chooser) string {
			x := sc.New()
			out := vsched.Run(vsched.Config{MaxSteps: sc.MaxSteps, TimerBudget: sc.TimerBudget,
				Monitor: x.Monitor, Symmetric: sc.Symmetric, StartMs: sc.StartMs, NoStmtYield: sc.NoStmtYield}, adapter{ch}, x.Main)
			obs, _ := x.Finish(out)
			return obs
		}, explore.Options{Bound: 0, MaxExecutions: sc.AutoDelay, Stop: c.Expired})
		if !probe.Completed {
			sc.FreeCost = 1
			sc.MaxBound = sc.AutoDelayBound
			c.Count("delay_bounded_scenarios", 1)
			if c.Shard == 0 {
				c.Note("scenario %s: more than %d schedules without any preemption; explored with delay bounding, bound %d", sc.Name, sc.AutoDelay, sc.MaxBound)
			}
		}
	}
	return &expState{sc: sc, outcomes: map[uint64]bool{}, o1: o1, points: len(r1.Points)}
}

func (es *expState) runBound(c *lib.Ctx, bound int, stop func() bool) {
	sc := es.sc
	if c.Expired() {
		c.Cap("scenario %s: bound %d not started", sc.Name, bound)
		es.done = true
		return
	}
	run := func(ch *explore.Chooser) string {
		x := sc.New()
		out := vsched.Run(vsched.Config{MaxSteps: sc.MaxSteps, TimerBudget: sc.TimerBudget,
			Monitor: x.Monitor, Symmetric: sc.Symmetric, StartMs: sc.StartMs, FreeSwitchCost: sc.FreeCost, NoStmtYield: sc.NoStmtYield}, adapter{ch}, x.Main)
		obs, f := x.Finish(out)
		if ch.Diverge != "" {
			lib.Infra("scenario %s: replay diverged: %s", sc.Name, ch.Diverge)
		}
		if out.Status == "horizon" {
			c.Count("horizon:"+sc.Name, 1)
		}
		if f != nil {
			report(c, sc, ch.Rec.Choices, f)
		}
		return obs
	}
	st := explore.Explore(run, explore.Options{Bound: bound, Shard: c.Shard, NShards: c.NShards,
		Stop: stop})
	n := int(st.Executions)
	if bound == es.cutBound && es.cutExecs > 0 {
		// second pass over a bound that was cut: count the executions once
		n = max(0, n-es.cutExecs)
		c.Count(fmt.Sprintf("execs:%s:pb%d", sc.Name, bound), -es.cutExecs)
		es.cutExecs = 0
	}
	c.Eval(n)
	for h := range st.Outcomes {
		if !es.outcomes[h] {
			es.outcomes[h] = true
			c.DistinctHash(h ^ hashName(sc.Name))
		}
	}
	c.Count(fmt.Sprintf("execs:%s:pb%d", sc.Name, bound), int(st.Executions))
	if st.Completed {
		c.Count(fmt.Sprintf("shards_completed:%s:pb%d", sc.Name, bound), 1)
	} else {
		if es.sliced && !c.Expired() {
			es.cutBound, es.cutExecs = bound, int(st.Executions)
		} else {
			c.Cap("scenario %s: bound %d not completed on shard %d (%d executions)", sc.Name, bound, c.Shard, st.Executions)
		}
		es.done = true
	}
	if c.Shard == 0 {
		c.Set("max_choice_depth:"+sc.Name, st.MaxDepth)
	}
	if c.Stopped() {
		es.done = true
	}
}

func (es *expState) finish(c *lib.Ctx) {
	sc := es.sc
	if c.Shard == 0 {
		c.Set("default_schedule_points:"+sc.Name, es.points)
		if c.NSamples() < 8 {
			_, _, _, _, tr := RunOne(sc, nil, true)
			if len(tr) > 40 {
				tr = append(tr[:40], fmt.Sprintf("… %d more steps", len(tr)-40))
			}
			c.Sample(map[string]any{"scenario": sc.Name, "default_schedule_observation": trunc(es.o1, 600), "trace_head": tr})
		}
	}
}

func trunc(s string, n int) string {
	if len(s) > n {
		return s[:n] + "…"
	}
	return s
}

func hashName(s string) uint64 {
	var h uint64 = 1469598103934665603
	for i := 0; i < len(s); i++ {
		h = (h ^ uint64(s[i])) * 1099511628211
	}
	return h
}

func report(c *lib.Ctx, sc *Scenario, choices []int, f *Failure) {
	// confirm by replaying 3 times: the same schedule must fail every time
	for i := 0; i < 3; i++ {
		_, f2, _, _, _ := RunOne(sc, choices, false)
		if f2 == nil {
			lib.Infra("scenario %s: failure %q did not reproduce on replay %d of schedule %v", sc.Name, f.Msg, i+1, choices)
		}
	}
	_, _, _, _, tr := RunOne(sc, choices, true)
	c.Fail(f.Class, Case{Scenario: sc.Name, Choices: append([]int{}, choices...), Trace: tr},
		"scenario %s: %s", sc.Name, f.Msg)
}

// Replay re-runs a recorded case against the scenario list.
func Replay(c *lib.Ctx, scs []*Scenario, raw json.RawMessage) {
	var cs Case
	if err := json.Unmarshal(raw, &cs); err != nil {
		lib.Infra("bad case: %v", err)
	}
	for _, sc := range scs {
		if sc.Name == cs.Scenario {
			obs, f, _, out, tr := RunOne(sc, cs.Choices, true)
			fmt.Println("scenario:", sc.Name, "status:", out.Status, out.Detail)
			fmt.Println(strings.Join(tr, "\n"))
			fmt.Println("observation:", obs)
			if f != nil {
				c.Fail(f.Class, cs, "scenario %s: %s", sc.Name, f.Msg)
			}
			return
		}
	}
	lib.Infra("unknown scenario %q", cs.Scenario)
}
