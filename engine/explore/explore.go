// Package explore is the stateless, deviation-bounded depth-first explorer
// (engine E0). One *execution* is a complete run of a harness under a Chooser;
// every choice point reports its number of alternatives and the deviation cost
// of each (0 = default/free, 1 = a preemption or a non-default environment
// answer). The explorer enumerates every choice sequence whose total cost is
// within the bound: run with a prefix, answer 0 (the default) after it, then
// branch on every later point and every alternative that stays within budget.
//
// Replaying a prefix must reproduce the same points (same number of
// alternatives); any divergence is a hard error: nondeterminism the harness
// does not own.
package explore

import (
	"fmt"
	"hash/fnv"
)

// PointRec is what the explorer remembers about one choice point.
type PointRec struct {
	N     int
	Costs []int
	Label string
}

// Exec is one execution's record.
type Exec struct {
	Choices []int
	Points  []PointRec
	Cost    int // total deviation cost of Choices
}

// Chooser drives one execution: it replays Prefix and then answers 0.
type Chooser struct {
	Prefix  []int
	Rec     Exec
	Diverge string // set when the prefix could not be replayed
}

// Choose implements the scheduler's Chooser contract (see Adapter types in
// harness packages): n alternatives with the given costs.
func (c *Chooser) Choose(n int, costs []int, label string) int {
	i := len(c.Rec.Choices)
	k := 0
	if i < len(c.Prefix) {
		k = c.Prefix[i]
		if k >= n {
			if c.Diverge == "" {
				c.Diverge = fmt.Sprintf("choice %d: prefix wants alternative %d but only %d exist (%s)", i, k, n, label)
			}
			k = 0
		}
	}
	c.Rec.Choices = append(c.Rec.Choices, k)
	cc := make([]int, n)
	copy(cc, costs)
	c.Rec.Points = append(c.Rec.Points, PointRec{N: n, Costs: cc, Label: label})
	if k < len(costs) {
		c.Rec.Cost += costs[k]
	}
	return k
}

// RunFunc performs one execution with the given chooser and returns an
// observation string (used for distinct-outcome counting and determinism
// checks) and whether exploration should stop (violation cap reached).
type RunFunc func(ch *Chooser) (obs string)

// Stats of an exploration.
type Stats struct {
	Executions   int64
	MaxDepth     int
	MaxPoints    int
	Bound        int
	Completed    bool // the whole tree within Bound was explored
	Outcomes     map[uint64]int64
	SumPoints    int64
	Diverged     int64
	FirstDiverge string
}

// Options for Explore.
type Options struct {
	Bound int
	// Shard/NShards: static sharding of the exploration tree. The frontier of
	// prefixes at ShardDepth expansions is computed identically by every shard
	// and each subtree is owned by hash(prefix) % NShards.
	Shard, NShards int
	// Stop is polled between executions; returning true ends the exploration
	// (Completed=false).
	Stop func() bool
	// MaxExecutions caps the number of executions (0 = none).
	MaxExecutions int64
}

// Explore enumerates all executions within opt.Bound.
func Explore(run RunFunc, opt Options) Stats {
	st := Stats{Bound: opt.Bound, Outcomes: map[uint64]int64{}, Completed: true}
	if opt.NShards <= 1 {
		opt.NShards, opt.Shard = 1, 0
	}
	type item struct {
		prefix []int
		level  int  // number of branch decisions from the root
		owned  bool // this shard owns the whole subtree
	}
	// Sharding: nodes at level < splitLevel are executed by every shard (they
	// are few) but counted once, by shard 0; a node at level == splitLevel is
	// owned - together with its whole subtree - by hash(prefix) % NShards.
	const splitLevel = 2
	stack := []item{{prefix: nil, level: 0, owned: opt.NShards == 1}}
	for len(stack) > 0 {
		if opt.Stop != nil && opt.Stop() {
			st.Completed = false
			break
		}
		if opt.MaxExecutions > 0 && st.Executions >= opt.MaxExecutions {
			st.Completed = false
			break
		}
		it := stack[len(stack)-1]
		stack = stack[:len(stack)-1]
		ch := &Chooser{Prefix: it.prefix}
		obs := run(ch)
		x := ch.Rec
		if ch.Diverge != "" {
			st.Diverged++
			if st.FirstDiverge == "" {
				st.FirstDiverge = ch.Diverge
			}
		}
		count := it.owned || (opt.Shard == 0) // shared nodes are counted once, by shard 0
		if count {
			st.Executions++
			st.SumPoints += int64(len(x.Points))
			if len(x.Choices) > st.MaxDepth {
				st.MaxDepth = len(x.Choices)
			}
			h := fnv.New64a()
			h.Write([]byte(obs))
			st.Outcomes[h.Sum64()]++
		}
		// cumulative cost before each point
		cost := 0
		for i := 0; i < len(x.Points); i++ {
			if i < len(it.prefix) {
				if x.Choices[i] < len(x.Points[i].Costs) {
					cost += x.Points[i].Costs[x.Choices[i]]
				}
				continue
			}
			p := x.Points[i]
			for alt := p.N - 1; alt >= 1; alt-- {
				c := cost
				if alt < len(p.Costs) {
					c += p.Costs[alt]
				}
				if c > opt.Bound {
					continue
				}
				child := make([]int, i+1)
				copy(child, x.Choices[:i])
				child[i] = alt
				owned := it.owned
				if !owned && it.level+1 >= splitLevel {
					if ownerOf(child, opt.NShards) != opt.Shard {
						continue
					}
					owned = true
				}
				stack = append(stack, item{prefix: child, level: it.level + 1, owned: owned})
			}
			// default choice (0) continues; its cost
			if len(p.Costs) > 0 {
				cost += p.Costs[x.Choices[i]]
			}
		}
	}
	return st
}

func ownerOf(prefix []int, n int) int {
	h := fnv.New32a()
	for _, c := range prefix {
		h.Write([]byte{byte(c), byte(c >> 8), 0xff})
	}
	h.Write([]byte{byte(len(prefix)), byte(len(prefix) >> 8)})
	return int(h.Sum32() % uint32(n))
}
