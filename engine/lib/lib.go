// Package lib is the common plumbing of every /verif check: flag/env parsing,
// budgets, counters, evidence writing, known-finding matching, violation
// reporting with replay files, in-process and sub-process sharding.
//
// Exit codes: 0 = property held on everything explored (KNOWN-FINDING lines
// allowed), 1 = VIOLATION line printed, 2 = infrastructure error (never a
// violation).
package lib

import (
	"bufio"
	"crypto/sha256"
	"encoding/hex"
	"encoding/json"
	"flag"
	"fmt"
	"hash/fnv"
	"os"
	"os/exec"
	"path/filepath"
	"runtime"
	"runtime/debug"
	"sort"
	"strconv"
	"strings"
	"sync"
	"sync/atomic"
	"time"
)

const VerifDir = "/verif"

// outDir is where evidence/ and replays/ are written: /verif normally, a
// scratch directory for mutant runs (mutate.sh sets VERIF_MUTRUN).
func outDir() string {
	if os.Getenv("VERIF_MUTRUN") != "" {
		return filepath.Join(VerifDir, "build", "mutrun")
	}
	return VerifDir
}

// Spec describes one check.
type Spec struct {
	ID    string // property id, e.g. "C27"
	Level string // evidence level: exploration | fault_enumeration | model_checking
	Rule  string // how cases are enumerated and what makes one distinct/non-trivial
	// Assumptions / trusted base, copied to the evidence file.
	Assumptions []string
	// Budget (wall seconds) per tier; when it expires the run ends with exit 0
	// and exhaustive:false. 0 = default (quick 150, thorough 1500).
	QuickBudget, ThoroughBudget float64
	// Procs > 0: run as that many worker sub-processes (each gets
	// Shard/NShards and GOMAXPROCS from ProcMaxProcs, default 1).
	// Procs == 0: single process; use Ctx.Par for goroutine parallelism.
	Procs        int
	ProcMaxProcs int
	Run          func(c *Ctx)
	// Replay re-executes one recorded case (the Case field of a replay file).
	// It must call c.Fail again if the case still fails.
	Replay func(c *Ctx, cs json.RawMessage)
}

// Ctx is handed to Spec.Run.
type Ctx struct {
	Spec    *Spec
	Tier    string // "quick" | "thorough"
	Seed    int64
	Shard   int // this worker's shard (0 when not sharded)
	NShards int // number of shards (1 when not sharded)

	start    time.Time
	deadline time.Time
	expired  atomic.Bool
	stop     atomic.Bool

	evals      atomic.Int64
	nontrivial atomic.Int64
	states     atomic.Int64
	trans      atomic.Int64
	traces     atomic.Int64

	mu         sync.Mutex
	distinct   map[uint64]struct{}
	samples    []any
	extra      map[string]any
	counters   map[string]int64
	notes      []string
	exhaustive bool
	caps       []string
	viols      []violation
	known      map[string]int // finding id -> hits
	knownText  map[string]string
	findings   []finding
}

type violation struct {
	Class  string `json:"class"`
	Msg    string `json:"msg"`
	Replay string `json:"replay"`
}

type finding struct {
	Property, ID, Match, Text string
}

const maxViolations = 5
const maxDistinct = 4_000_000

// Quick reports whether this is the quick tier.
func (c *Ctx) Quick() bool { return c.Tier != "thorough" }

// Pick returns q for the quick tier and t for the thorough tier.
func Pick[T any](c *Ctx, q, t T) T {
	if c.Quick() {
		return q
	}
	return t
}

// Eval counts n executed cases.
func (c *Ctx) Eval(n int) { c.evals.Add(int64(n)) }

// Nontrivial counts n cases that are distinct by construction and
// non-trivial by the check's stated rule.
func (c *Ctx) Nontrivial(n int) { c.nontrivial.Add(int64(n)) }

// State / Transition / TraceValidated feed the model_checking keys.
func (c *Ctx) State(n int)          { c.states.Add(int64(n)) }
func (c *Ctx) Transition(n int)     { c.trans.Add(int64(n)) }
func (c *Ctx) TraceValidated(n int) { c.traces.Add(int64(n)) }

// Distinct records a hashed key; distinct_nontrivial = |set| + Nontrivial.
func (c *Ctx) Distinct(key string) {
	h := fnv.New64a()
	h.Write([]byte(key))
	c.DistinctHash(h.Sum64())
}

func (c *Ctx) DistinctHash(h uint64) {
	c.mu.Lock()
	if len(c.distinct) < maxDistinct {
		c.distinct[h] = struct{}{}
	}
	c.mu.Unlock()
}

// Count bumps a named counter reported under coverage.counters.
func (c *Ctx) Count(name string, n int) {
	c.mu.Lock()
	c.counters[name] += int64(n)
	c.mu.Unlock()
}

// Sample records an example case (at most 8 are kept per process).
func (c *Ctx) Sample(x any) {
	c.mu.Lock()
	if len(c.samples) < 8 {
		c.samples = append(c.samples, x)
	}
	c.mu.Unlock()
}

// NSamples is the number of samples kept so far.
func (c *Ctx) NSamples() int {
	c.mu.Lock()
	defer c.mu.Unlock()
	return len(c.samples)
}

// Set stores an extra coverage key.
func (c *Ctx) Set(key string, v any) {
	c.mu.Lock()
	c.extra[key] = v
	c.mu.Unlock()
}

// Note appends a free text note to coverage.notes.
func (c *Ctx) Note(format string, a ...any) {
	c.mu.Lock()
	c.notes = append(c.notes, fmt.Sprintf(format, a...))
	c.mu.Unlock()
}

// Cap records that a cap/budget was hit: the run is not exhaustive.
func (c *Ctx) Cap(format string, a ...any) {
	c.mu.Lock()
	c.exhaustive = false
	s := fmt.Sprintf(format, a...)
	if len(c.caps) < 20 {
		c.caps = append(c.caps, s)
	}
	c.mu.Unlock()
}

// Expired reports whether the wall-clock budget is used up or enough
// violations were collected; loops should poll it and stop.
func (c *Ctx) Expired() bool {
	if c.stop.Load() {
		return true
	}
	if c.expired.Load() {
		return true
	}
	if time.Now().After(c.deadline) {
		if !c.expired.Swap(true) {
			c.Cap("wall-clock budget reached after %.0fs", time.Since(c.start).Seconds())
		}
		return true
	}
	return false
}

// Slice limits the budget to the given fraction of what is left until the
// returned function is called (a check with two parts uses it so that the
// first part cannot starve the second). A part that is cut reports its cap as
// usual, so the run is not called exhaustive.
func (c *Ctx) Slice(frac float64) (restore func()) {
	old := c.deadline
	c.deadline = time.Now().Add(time.Duration(float64(time.Until(old)) * frac))
	return func() {
		c.deadline = old
		c.expired.Store(false)
	}
}

// Remaining is the wall-clock budget left.
func (c *Ctx) Remaining() time.Duration { return time.Until(c.deadline) }

// Stopped reports whether enough violations were collected.
func (c *Ctx) Stopped() bool { return c.stop.Load() }

// Fail reports a failing case. class is the precise failure class computed by
// the oracle ("" if none); it is matched against KNOWN_FINDINGS lines
// `finding: property=<ID> id=<F> match=<class> ...`. cs is the replayable case.
// Returns true if the failure was a listed known finding.
func (c *Ctx) Fail(class string, cs any, format string, a ...any) bool {
	msg := fmt.Sprintf(format, a...)
	c.mu.Lock()
	defer c.mu.Unlock()
	if class != "" {
		for _, f := range c.findings {
			if f.Property == c.Spec.ID && f.Match == class {
				c.known[f.ID]++
				if _, ok := c.knownText[f.ID]; !ok {
					c.knownText[f.ID] = f.Text + " [e.g. " + trunc(msg, 300) + "]"
				}
				return true
			}
		}
	}
	if len(c.viols) >= maxViolations {
		c.stop.Store(true)
		return false
	}
	path := c.writeReplay(class, cs, msg)
	c.viols = append(c.viols, violation{Class: class, Msg: msg, Replay: path})
	if len(c.viols) >= maxViolations {
		c.stop.Store(true)
	}
	return false
}

func trunc(s string, n int) string {
	if len(s) > n {
		return s[:n] + "…"
	}
	return s
}

type replayFile struct {
	Property string          `json:"property"`
	Class    string          `json:"class"`
	Message  string          `json:"message"`
	Tier     string          `json:"tier"`
	Case     json.RawMessage `json:"case"`
}

func (c *Ctx) writeReplay(class string, cs any, msg string) string {
	raw, err := json.Marshal(cs)
	if err != nil {
		raw, _ = json.Marshal(fmt.Sprintf("%+v", cs))
	}
	sum := sha256.Sum256(append([]byte(class+"|"+msg+"|"), raw...))
	name := c.Spec.ID + "-" + hex.EncodeToString(sum[:6]) + ".json"
	dir := filepath.Join(outDir(), "replays")
	os.MkdirAll(dir, 0o755)
	path := filepath.Join(dir, name)
	b, _ := json.MarshalIndent(replayFile{Property: c.Spec.ID, Class: class,
		Message: msg, Tier: c.Tier, Case: raw}, "", " ")
	os.WriteFile(path, b, 0o644)
	return path
}

// Try runs f and returns the recovered panic value (nil if none).
func Try(f func()) (e any) {
	defer func() {
		if r := recover(); r != nil {
			e = r
		}
	}()
	f()
	return nil
}

// PanicText renders a recovered value.
func PanicText(e any) string {
	switch x := e.(type) {
	case nil:
		return ""
	case error:
		return x.Error()
	case fmt.Stringer:
		return x.String()
	case string:
		return x
	}
	return fmt.Sprint(e)
}

// IsRuntimeError reports whether a recovered value is a Go runtime error
// (index out of range, nil dereference, …) as opposed to a reported error.
func IsRuntimeError(e any) bool {
	_, ok := e.(runtime.Error)
	return ok
}

// Par runs fn(i) for i in [0,n) on all CPUs. It stops handing out work when
// the budget expires (recording a cap) or enough violations were found.
// Items are handed out in order, so "everything below the first unprocessed
// index" was covered. A panic escaping fn is an infrastructure error.
func (c *Ctx) Par(n int, fn func(i int)) (completed bool) {
	workers := runtime.GOMAXPROCS(0)
	if workers > n {
		workers = n
	}
	if workers < 1 {
		workers = 1
	}
	var next atomic.Int64
	var wg sync.WaitGroup
	var cut atomic.Bool
	for w := 0; w < workers; w++ {
		wg.Add(1)
		go func() {
			defer wg.Done()
			defer func() {
				if r := recover(); r != nil {
					c.escaped("a check worker", r, debug.Stack())
				}
			}()
			for {
				if c.Expired() {
					cut.Store(true)
					return
				}
				i := int(next.Add(1) - 1)
				if i >= n {
					return
				}
				fn(i)
			}
		}()
	}
	wg.Wait()
	done := int(next.Load())
	if done > n {
		done = n
	}
	if cut.Load() && done < n {
		c.Cap("Par: %d of %d work items handed out before stop", done, n)
		return false
	}
	return true
}

// Infra aborts with an infrastructure error (exit 2); never a violation.
func Infra(format string, a ...any) {
	fmt.Fprintf(os.Stderr, "INFRA-ERROR: "+format+"\n", a...)
	os.Exit(2)
}

func loadFindings() []finding {
	f, err := os.Open(filepath.Join(VerifDir, "KNOWN_FINDINGS"))
	if err != nil {
		return nil
	}
	defer f.Close()
	var out []finding
	sc := bufio.NewScanner(f)
	sc.Buffer(make([]byte, 1<<20), 1<<20)
	for sc.Scan() {
		line := strings.TrimSpace(sc.Text())
		if !strings.HasPrefix(line, "finding:") {
			continue // "fixed:" lines and comments suppress nothing
		}
		rest := strings.TrimSpace(strings.TrimPrefix(line, "finding:"))
		var fd finding
		words := strings.Fields(rest)
		n := 0
		for _, w := range words {
			if v, ok := strings.CutPrefix(w, "property="); ok {
				fd.Property = v
			} else if v, ok := strings.CutPrefix(w, "id="); ok {
				fd.ID = v
			} else if v, ok := strings.CutPrefix(w, "match="); ok {
				fd.Match = v
			} else {
				break
			}
			n++
		}
		fd.Text = strings.Join(words[n:], " ")
		if fd.Property != "" && fd.Match != "" {
			if fd.ID == "" {
				fd.ID = fd.Match
			}
			out = append(out, fd)
		}
	}
	return out
}

type partial struct {
	Evals, Nontrivial, States, Trans, Traces int64
	Distinct                                 []uint64
	Samples                                  []any
	Extra                                    map[string]any
	Counters                                 map[string]int64
	Notes                                    []string
	Exhaustive                               bool
	Caps                                     []string
	Viols                                    []violation
	Known                                    map[string]int
	KnownText                                map[string]string
}

func (c *Ctx) toPartial() partial {
	p := partial{Evals: c.evals.Load(), Nontrivial: c.nontrivial.Load(),
		States: c.states.Load(), Trans: c.trans.Load(), Traces: c.traces.Load(),
		Samples: c.samples, Extra: c.extra, Counters: c.counters, Notes: c.notes,
		Exhaustive: c.exhaustive, Caps: c.caps, Viols: c.viols, Known: c.known,
		KnownText: c.knownText}
	for h := range c.distinct {
		p.Distinct = append(p.Distinct, h)
	}
	return p
}

func (c *Ctx) merge(p partial) {
	c.evals.Add(p.Evals)
	c.nontrivial.Add(p.Nontrivial)
	c.states.Add(p.States)
	c.trans.Add(p.Trans)
	c.traces.Add(p.Traces)
	for _, h := range p.Distinct {
		if len(c.distinct) < maxDistinct {
			c.distinct[h] = struct{}{}
		}
	}
	for _, s := range p.Samples {
		if len(c.samples) < 8 {
			c.samples = append(c.samples, s)
		}
	}
	for k, v := range p.Extra {
		if _, ok := c.extra[k]; !ok {
			c.extra[k] = v
		}
	}
	for k, v := range p.Counters {
		c.counters[k] += v
	}
	for _, n := range p.Notes {
		if len(c.notes) < 40 {
			c.notes = append(c.notes, n)
		}
	}
	if !p.Exhaustive {
		c.exhaustive = false
	}
	for _, s := range p.Caps {
		if len(c.caps) < 20 {
			c.caps = append(c.caps, s)
		}
	}
	for _, v := range p.Viols {
		if len(c.viols) < maxViolations {
			c.viols = append(c.viols, v)
		}
	}
	for k, v := range p.Known {
		c.known[k] += v
	}
	for k, v := range p.KnownText {
		if _, ok := c.knownText[k]; !ok {
			c.knownText[k] = v
		}
	}
}

func newCtx(spec *Spec, tier string, seed int64) *Ctx {
	c := &Ctx{Spec: spec, Tier: tier, Seed: seed, NShards: 1,
		distinct: map[uint64]struct{}{}, extra: map[string]any{},
		counters: map[string]int64{}, known: map[string]int{},
		knownText: map[string]string{}, exhaustive: true}
	c.start = time.Now()
	b := spec.QuickBudget
	if b == 0 {
		b = 150
	}
	if tier == "thorough" {
		b = spec.ThoroughBudget
		if b == 0 {
			b = 1500
		}
	}
	if s := os.Getenv("VERIF_BUDGET"); s != "" {
		if f, err := strconv.ParseFloat(s, 64); err == nil {
			b = f
		}
	}
	c.deadline = c.start.Add(time.Duration(b * float64(time.Second)))
	c.findings = loadFindings()
	return c
}

// Main is the entry point of every check binary.
func Main(spec Spec) {
	tier := os.Getenv("VERIF_TIER")
	fs := flag.NewFlagSet(spec.ID, flag.ExitOnError)
	tierFlag := fs.String("tier", "", "quick|thorough")
	replay := fs.String("replay", "", "replay file")
	fs.Parse(os.Args[1:])
	if *tierFlag != "" {
		tier = *tierFlag
	}
	if tier != "thorough" {
		tier = "quick"
	}
	var seed int64
	if s := os.Getenv("VERIF_SEED"); s != "" {
		seed, _ = strconv.ParseInt(s, 10, 64)
	}
	c := newCtx(&spec, tier, seed)

	if *replay != "" {
		doReplay(c, *replay)
		return
	}

	// worker sub-process
	if sh := os.Getenv("VERIF_SHARD"); sh != "" {
		var i, n int
		fmt.Sscanf(sh, "%d/%d", &i, &n)
		c.Shard, c.NShards = i, n
		runGuarded(c)
		b, err := json.Marshal(c.toPartial())
		if err != nil {
			Infra("marshal partial: %v", err)
		}
		if err := os.WriteFile(os.Getenv("VERIF_PARTIAL"), b, 0o644); err != nil {
			Infra("write partial: %v", err)
		}
		return
	}

	if spec.Procs > 0 {
		runProcs(c)
	} else {
		runGuarded(c)
	}
	finish(c)
}

// escaped handles a panic that a check did not catch. If it was raised in the
// code under test (the innermost frame that is not the Go runtime belongs to
// the repository, not to the scheduler shim) it is the code that failed where
// the harness expected no failure: reported as a violation. On the unchanged
// tree this does not happen (the check would not pass); it matters for changed
// trees, where an unexpected exception or crash in a set-up step must not look
// like a tooling problem. Anything else is an infrastructure error.
func (c *Ctx) escaped(where string, r any, stack []byte) {
	frame := panicFrame(stack)
	if strings.HasPrefix(frame, "github.com/apmckinlay/gsuneido/") && !strings.Contains(frame, "/verifshim/") {
		if i := strings.Index(frame, "("); i > 0 && !strings.HasPrefix(frame[i:], "(*") {
			frame = frame[:i]
		}
		c.Fail("", map[string]string{"escaped_panic": fmt.Sprint(r), "frame": frame},
			"the code under test panicked where the harness expects no failure (%s): %v [in %s]", where, r, frame)
		return
	}
	Infra("panic escaped %s: %v\n%s", where, r, stack)
}

// panicFrame returns the function line of the innermost frame, below the last
// panic( line of a stack dump, that is not part of the Go runtime.
func panicFrame(stack []byte) string {
	lines := strings.Split(string(stack), "\n")
	last := -1
	for i, l := range lines {
		if strings.HasPrefix(l, "panic(") {
			last = i
		}
	}
	for i := last + 1; last >= 0 && i < len(lines); i++ {
		l := lines[i]
		if strings.HasPrefix(l, "\t") || l == "" {
			continue
		}
		if strings.HasPrefix(l, "runtime.") || strings.HasPrefix(l, "panic(") {
			continue
		}
		return l
	}
	return ""
}

func runGuarded(c *Ctx) {
	defer func() {
		if r := recover(); r != nil {
			c.escaped("check "+c.Spec.ID, r, debug.Stack())
		}
	}()
	c.Spec.Run(c)
}

func runProcs(c *Ctx) {
	n := c.Spec.Procs
	exe, err := os.Executable()
	if err != nil {
		Infra("os.Executable: %v", err)
	}
	dir, err := os.MkdirTemp("", "verif-"+c.Spec.ID+"-")
	if err != nil {
		Infra("mkdtemp: %v", err)
	}
	defer os.RemoveAll(dir)
	mp := c.Spec.ProcMaxProcs
	if mp == 0 {
		mp = 1
	}
	remaining := time.Until(c.deadline).Seconds()
	var wg sync.WaitGroup
	parts := make([]partial, n)
	errs := make([]error, n)
	outs := make([][]byte, n)
	for i := 0; i < n; i++ {
		wg.Add(1)
		go func(i int) {
			defer wg.Done()
			pf := filepath.Join(dir, fmt.Sprintf("part%d.json", i))
			cmd := exec.Command(exe, "--tier", c.Tier)
			cmd.Env = append(os.Environ(),
				fmt.Sprintf("VERIF_SHARD=%d/%d", i, n),
				"VERIF_PARTIAL="+pf,
				fmt.Sprintf("GOMAXPROCS=%d", mp),
				fmt.Sprintf("VERIF_BUDGET=%.1f", remaining),
				fmt.Sprintf("VERIF_SEED=%d", c.Seed))
			if os.Getenv("GOGC") == "" {
				// executions allocate and drop a whole system each; collect less often
				cmd.Env = append(cmd.Env, "GOGC=400")
			}
			out, err := cmd.CombinedOutput()
			outs[i] = out
			if err != nil {
				errs[i] = err
				return
			}
			b, err := os.ReadFile(pf)
			if err != nil {
				errs[i] = err
				return
			}
			if err := json.Unmarshal(b, &parts[i]); err != nil {
				errs[i] = err
			}
		}(i)
	}
	wg.Wait()
	for i := 0; i < n; i++ {
		if errs[i] != nil {
			Infra("worker %d/%d failed: %v\n%s", i, n, errs[i], tail(outs[i], 6000))
		}
		if len(outs[i]) > 0 && os.Getenv("VERIF_VERBOSE") != "" {
			os.Stderr.Write(outs[i])
		}
		c.merge(parts[i])
	}
}

func tail(b []byte, n int) string {
	if len(b) > n {
		b = b[len(b)-n:]
	}
	return string(b)
}

func doReplay(c *Ctx, path string) {
	b, err := os.ReadFile(path)
	if err != nil {
		Infra("replay: %v", err)
	}
	var rf replayFile
	if err := json.Unmarshal(b, &rf); err != nil {
		Infra("replay: %v", err)
	}
	if c.Spec.Replay == nil {
		fmt.Printf("replay not implemented for %s; recorded case:\n%s\n", c.Spec.ID, b)
		os.Exit(2)
	}
	if rf.Tier == "thorough" {
		c.Tier = "thorough"
	}
	c.findings = nil // a replay shows the raw failure
	c.Spec.Replay(c, rf.Case)
	if len(c.viols) > 0 {
		fmt.Printf("REPLAY-FAILS property=%s class=%s: %s\n", c.Spec.ID, c.viols[0].Class, c.viols[0].Msg)
		os.Exit(1)
	}
	fmt.Printf("REPLAY-PASSES property=%s\n", c.Spec.ID)
}

func finish(c *Ctx) {
	wall := time.Since(c.start).Seconds()
	cov := map[string]any{}
	for k, v := range c.extra {
		cov[k] = v
	}
	nd := int64(len(c.distinct)) + c.nontrivial.Load()
	cov["evaluations"] = c.evals.Load()
	cov["distinct_nontrivial"] = nd
	cov["rule"] = c.Spec.Rule
	samples := c.samples
	if samples == nil {
		samples = []any{}
	}
	cov["samples"] = samples
	cov["exhaustive"] = c.exhaustive
	if len(c.caps) > 0 {
		cov["caps_hit"] = c.caps
	}
	if len(c.counters) > 0 {
		cov["counters"] = c.counters
	}
	if len(c.notes) > 0 {
		cov["notes"] = c.notes
	}
	if c.Spec.Level == "model_checking" || c.states.Load() > 0 {
		cov["states"] = c.states.Load()
		cov["transitions"] = c.trans.Load()
		cov["traces_validated_against_impl"] = c.traces.Load()
	}
	if len(c.known) > 0 {
		kf := map[string]int{}
		for k, v := range c.known {
			kf[k] = v
		}
		cov["known_findings_hit"] = kf
	}
	ev := map[string]any{
		"property_id": c.Spec.ID,
		"tier":        c.Tier,
		"seed":        c.Seed,
		"level":       c.Spec.Level,
		"coverage":    cov,
		"assumptions": append([]string{}, c.Spec.Assumptions...),
		"wall_s":      wall,
		"violations":  len(c.viols),
	}
	if len(c.viols) > 0 {
		ev["violation_details"] = c.viols
	}
	b, err := json.MarshalIndent(ev, "", " ")
	if err != nil {
		Infra("marshal evidence: %v", err)
	}
	os.MkdirAll(filepath.Join(outDir(), "evidence"), 0o755)
	if err := os.WriteFile(filepath.Join(outDir(), "evidence", c.Spec.ID+".json"), b, 0o644); err != nil {
		Infra("write evidence: %v", err)
	}
	ids := make([]string, 0, len(c.known))
	for id := range c.known {
		ids = append(ids, id)
	}
	sort.Strings(ids)
	for _, id := range ids {
		fmt.Printf("KNOWN-FINDING: property=%s %s %s (%d cases)\n", c.Spec.ID, id, c.knownText[id], c.known[id])
	}
	fmt.Printf("%s %s: evaluations=%d distinct_nontrivial=%d exhaustive=%v wall=%.1fs violations=%d\n",
		c.Spec.ID, c.Tier, c.evals.Load(), nd, c.exhaustive, wall, len(c.viols))
	if len(c.viols) == 0 && (c.evals.Load() == 0 || nd < 2) {
		Infra("vacuous run: evaluations=%d distinct_nontrivial=%d", c.evals.Load(), nd)
	}
	if len(c.viols) > 0 {
		for _, v := range c.viols {
			fmt.Printf("  violation class=%q: %s\n", v.Class, trunc(v.Msg, 2000))
		}
		for _, v := range c.viols {
			fmt.Printf("VIOLATION property=%s replay=%s\n", c.Spec.ID, v.Replay)
		}
		os.Exit(1)
	}
}
