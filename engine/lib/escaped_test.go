package lib

import (
	"runtime/debug"
	"strings"
	"testing"
)

func boom(m map[string]int) { m["x"] = 1 }

func TestPanicFrame(t *testing.T) {
	var frame string
	func() {
		defer func() {
			recover()
			frame = panicFrame(debug.Stack())
		}()
		boom(nil) // runtime error: the faulting frame is boom, below runtime frames
	}()
	if !strings.HasPrefix(frame, "verif/lib.boom(") {
		t.Error("got", frame)
	}
	func() {
		defer func() {
			recover()
			frame = panicFrame(debug.Stack())
		}()
		panic("explicit")
	}()
	if !strings.HasPrefix(frame, "verif/lib.TestPanicFrame.func2(") {
		t.Error("got", frame)
	}
}
