#!/bin/bash
# /verif/seedaccept.sh <ID> "<verify line from seedverify.sh>" "<detected-by text>"
# Stores a confirmed seeded change under /verif/seeded/<ID>/ (patch.diff, demo, meta.json).
set -u
ID=$1; VER=$2; DET=$3
S=${SEED_SRC:-/tmp/seed-out/$ID}; D=/verif/seeded/${SEED_NAME:-$ID}
mkdir -p $D
cp $S/patch.diff $D/
find $S -name 'zz_seed_*' -type f | while read f; do rel=${f#$S/}; mkdir -p $D/$(dirname $rel); cp $f $D/$rel; done
python3 - "$S/meta.json" "$D/meta.json" "$ID" "$VER" "$DET" <<'PY'
import json,sys
src,dst,pid,ver,det=sys.argv[1:]
try: m=json.load(open(src))
except Exception: m={}
out={"property_id":pid,"breaks":m.get("summary") or m.get("change") or "",
 "files_changed":m.get("files_changed") or m.get("file(s) changed") or m.get("files") or m.get("file") or "",
 "needs_to_manifest":m.get("needs_to_manifest",""),
 "author_demo":m.get("demo",""),"author_tests_run":m.get("tests_run",""),
 "coordinator_verification":{"ran":"/verif/seedverify.sh (scratch worktree of /repo HEAD: patch applies; demonstration with / without the patch; tests of the touched packages; then /verif/seedrun.sh = check built against /repo + patch through the build overlay)","result":ver},
 "detected_by":det}
json.dump(out,open(dst,"w"),indent=1)
PY
echo "stored $D"
