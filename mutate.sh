#!/bin/bash
# /verif/mutate.sh <ID> <repo-relative-file> <sed-script> [quick|thorough]
# Runs check <ID> against a MUTATED copy of one repo file, delivered through the
# build overlay only: /repo is not touched. Used to show that a check can fail.
# Several mutations: VERIF_MUT="<file>::<sed>;;<file2>::<sed2>" with file/sed args "-" "-".
# Evidence/replays of a mutant run go to /verif/build/<id>/mutrun (not /verif/evidence).
set -u
ID="${1:?usage}"; FILE="${2:?}"; SED="${3:?}"; TIER="${4:-quick}"
id=$(echo "$ID" | tr 'A-Z' 'a-z')
V=/verif
export GOFLAGS=-mod=mod GOPROXY=off
mkdir -p $V/build/$id/mut $V/build/bin
spec="${VERIF_MUT:-$FILE::$SED}"
maps=""
IFS=$'\n'
for one in $(echo "$spec" | sed 's/;;/\n/g'); do
  f="${one%%::*}"; s="${one#*::}"
  dst=$V/build/$id/mut/$f
  mkdir -p "$(dirname $dst)"
  sed -E "$s" /repo/$f > $dst
  if cmp -s /repo/$f $dst; then echo "mutate: sed script changed nothing in $f" >&2; exit 2; fi
  maps="$maps$f=$dst;"
done
unset IFS
cd $V/engine
cmp -s /repo/go.sum go.sum.repo 2>/dev/null || { cp /repo/go.sum go.sum.repo; cat /repo/go.sum go.sum.extra 2>/dev/null | sort -u > go.sum; }
VERIF_MUT_FILES="$maps" python3 $V/engine/mkoverlay.py $id > $V/build/$id/overlay-mut.json || exit 2
if ! go build -tags verif -overlay $V/build/$id/overlay-mut.json -o $V/build/bin/$id-mut ./checks/$id 2> $V/build/$id/build-mut.log; then
  echo "MUTANT-DOES-NOT-BUILD (see $V/build/$id/build-mut.log)"; tail -15 $V/build/$id/build-mut.log; exit 3
fi
cd $V
VERIF_MUTRUN=1 VERIF_TIER=$TIER $V/build/bin/$id-mut --tier "$TIER"
rc=$?
echo "mutant exit=$rc"
exit $rc
