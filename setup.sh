#!/bin/bash
# MANIFEST.setup_cmd: build everything once, offline, to warm the Go build cache.
set -u
cd /verif
export GOFLAGS=-mod=mod GOPROXY=off
mkdir -p build/bin build/certs evidence replays
cp /repo/go.sum engine/go.sum.repo
cat /repo/go.sum engine/go.sum.extra 2>/dev/null | sort -u > engine/go.sum
(cd engine && go run ./cmd/gencert /verif/build/certs) || exit 2
fail=0
build_one() {
  id=$1
  mkdir -p build/$id
  python3 engine/mkoverlay.py $id > build/$id/overlay.json || return 1
  (cd engine && go build -tags verif -overlay /verif/build/$id/overlay.json -o /verif/build/bin/$id ./checks/$id) 2> build/$id/build.log || { tail -20 build/$id/build.log; return 1; }
}
for d in engine/checks/*/; do
  id=$(basename $d)
  build_one $id || { echo "setup: build of $id failed" >&2; fail=1; }
done
exit $fail
