#!/usr/bin/env python3
"""Regenerate /verif/MANIFEST.json from engine/checks/*/meta.json."""
import json, glob, os
V = "/verif"
props = [json.loads(l) for l in open(f"{V}/properties.jsonl")]
ids = [p["id"] for p in props]
checks, have = [], set()
for mf in sorted(glob.glob(f"{V}/engine/checks/*/meta.json")):
    if not os.path.exists(os.path.join(os.path.dirname(mf), "READY")):
        continue  # not reviewed/accepted by the coordinator yet
    m = json.load(open(mf))
    pid = m["property_id"]
    have.add(pid)
    c = {
        "property_id": pid,
        "quick_cmd": f"./check {pid} quick",
        "thorough_cmd": f"./check {pid} thorough",
        "evidence_file": f"/verif/evidence/{pid}.json",
        "replay_cmd_template": f"./check {pid} --replay {{path}}",
        "engine": m.get("engine", "E3"),
        "level_claimed": {"category": m["category"], "text": m["text"], "design_ref": m.get("design_ref", f"DESIGN.md section 4, {pid}")},
        "level_note": m["note"],
        "technique": m["technique"],
    }
    checks.append(c)
na_reasons = {}
if os.path.exists(f"{V}/not_applicable.json"):
    na_reasons = json.load(open(f"{V}/not_applicable.json"))
na = [{"property_id": i, "reason": na_reasons.get(i, "no check built for this property yet in this tree (planned, see DESIGN.md section 4); nothing is claimed for it")}
      for i in ids if i not in have]
man = {
    "version": 1,
    "setup_cmd": "./setup.sh",
    "hooks": {
        "guard": "verif",
        "enable": "go build -tags verif -overlay /verif/build/<check>/overlay.json (overlay adds //go:build verif files, shim packages and instrumented copies regenerated from the working tree; /repo has no hook commits)",
        "baseline_off_cmd": "cd /repo && GOFLAGS=-mod=mod go test -vet=off -count=1 -timeout 25m ./...",
        "source_commits": [],
        "add_only": True,
    },
    "engines": [
        {"name": "E0/lib", "path": "/verif/engine/lib", "kind_free_text": "check plumbing: budgets, evidence, known findings, replay files, sharding; deviation-bounded choice-tree explorer (engine/explore)", "serves_properties": sorted(have)},
        {"name": "E1/scheduler", "path": "/verif/overlay/repo/verifshim", "kind_free_text": "controlled cooperative scheduler for the real code (sync, atomic, channels, go, time, rand rewritten by engine/cmd/instrument on every run); preemption bounding and round-robin delay bounding; synchronisation-operation and statement granularity; engine/sched glue explores scenarios bound-major with fair time shares", "serves_properties": [p for p in ["C01", "C02", "C03", "C06", "C07", "C16", "C17", "C18", "C34", "C40", "C43"] if p in have]},
        {"name": "txpipe", "path": "/verif/engine/txpipe", "kind_free_text": "the real db19 transaction pipeline (checker, merger, workers, tickers) under E1 with a reference model of the tables; scheduled tier, synchronous operation-interleaving tier, sequential schema-snapshot tier", "serves_properties": [p for p in ["C01", "C02", "C03", "C06", "C07", "C16"] if p in have]},
        {"name": "E2/dbmodel", "path": "/verif/engine/model/dbmodel", "kind_free_text": "reference model of schema + data with an explicit-state BFS driver that replays every transition on a fresh real database (admin requests, transactions, persist, close+reopen)", "serves_properties": [p for p in ["C04", "C05", "C19", "C20", "C21"] if p in have]},
        {"name": "cspipe", "path": "/verif/engine/model/cspipe", "kind_free_text": "real server connection over an in-process pipe with a raw wire client (client-server differential and authorization state machine)", "serves_properties": [p for p in ["C40", "C41"] if p in have]},
    ],
    "checks": checks,
    "not_applicable": na,
    "notes": "All checks are bounded-exhaustive enumerations executed on the real implementation built from /repo's working tree through a go build overlay. See DESIGN.md.",
}
json.dump(man, open(f"{V}/MANIFEST.json", "w"), indent=1)
print(f"{len(checks)} checks, {len(na)} not_applicable")
