#!/usr/bin/env python3
"""Regenerate /verif/MANIFEST.json from engine/checks/*/meta.json."""
import json, glob, os
V = "/verif"
props = [json.loads(l) for l in open(f"{V}/properties.jsonl")]
ids = [p["id"] for p in props]
checks, have = [], set()
for mf in sorted(glob.glob(f"{V}/engine/checks/*/meta.json")):
    if not os.path.exists(os.path.join(os.path.dirname(mf), "READY")):
        continue  # not reviewed/accepted by the coordinator yet
    m = json.load(open(mf))
    pid = m["property_id"]
    have.add(pid)
    c = {
        "property_id": pid,
        "quick_cmd": f"./check {pid} quick",
        "thorough_cmd": f"./check {pid} thorough",
        "evidence_file": f"/verif/evidence/{pid}.json",
        "replay_cmd_template": f"./check {pid} --replay {{path}}",
        "engine": m.get("engine", "E3"),
        "level_claimed": {"category": m["category"], "text": m["text"], "design_ref": m.get("design_ref", f"DESIGN.md section 4, {pid}")},
        "level_note": m["note"],
        "technique": m["technique"],
    }
    checks.append(c)
na_reasons = {}
if os.path.exists(f"{V}/not_applicable.json"):
    na_reasons = json.load(open(f"{V}/not_applicable.json"))
na = [{"property_id": i, "reason": na_reasons.get(i, "no check built for this property yet in this tree (planned, see DESIGN.md section 4); nothing is claimed for it")}
      for i in ids if i not in have]
man = {
    "version": 1,
    "setup_cmd": "./setup.sh",
    "hooks": {
        "guard": "verif",
        "enable": "go build -tags verif -overlay /verif/build/<check>/overlay.json (overlay adds //go:build verif files, shim packages and instrumented copies regenerated from the working tree; /repo has no hook commits)",
        "baseline_off_cmd": "cd /repo && GOFLAGS=-mod=mod go test -vet=off -count=1 -timeout 25m ./...",
        "source_commits": [],
        "add_only": True,
    },
    "engines": [
        {"name": "E0/lib", "path": "/verif/engine/lib", "kind_free_text": "check plumbing: budgets, evidence, known findings, replay files, sharding; choice-tree explorer", "serves_properties": sorted(have)},
    ],
    "checks": checks,
    "not_applicable": na,
    "notes": "All checks are bounded-exhaustive enumerations executed on the real implementation built from /repo's working tree through a go build overlay. See DESIGN.md.",
}
json.dump(man, open(f"{V}/MANIFEST.json", "w"), indent=1)
print(f"{len(checks)} checks, {len(na)} not_applicable")
