#!/bin/bash
# /verif/seedverify.sh <dir-with patch.diff + demo files + meta.json> <ID> [quick|thorough]
# Confirms a seeded change in a throw-away worktree (never in /repo):
#  1. patch applies to /repo HEAD and the tree builds
#  2. the demonstration FAILS with the patch and PASSES without it
#  3. the tests of the packages the patch touches still pass with the patch
#  4. ./seedrun.sh: does check <ID> report a violation?
# Prints one summary line: SEED <ID> applies=.. demo_with=.. demo_without=.. pkgtests=.. check_exit=..
set -u
D="$(readlink -f "${1:?}")"; ID="${2:?}"; TIER="${3:-quick}"
export GOFLAGS=-mod=mod GOPROXY=off
WT=/tmp/seedverify-$$
git -C /repo worktree add -q --detach $WT HEAD || exit 2
trap 'git -C /repo worktree remove --force $WT >/dev/null 2>&1' EXIT
cp /verif/build/certs/server.crt /verif/build/certs/server.key $WT/dbms/
applies=yes
( cd $WT && git apply "$D/patch.diff" ) || applies=no
pkgs=$(cd $WT && git diff --name-only | grep '\.go$' | xargs -n1 dirname | sort -u | sed 's|^|./|' | tr '\n' ' ')
# demo files: *_test.go go next to the package named in their 'package' clause; we place them by path hint in meta or by searching
demos=$(ls "$D"/*_test.go 2>/dev/null)
place_demo() { # find the package dir: first changed dir whose package name matches
  f=$1; pk=$(grep -m1 '^package ' $f | awk '{print $2}' | sed 's/_test$//')
  for p in $pkgs $(cd $WT && git ls-files '*.go' | xargs -n1 dirname | sort -u | sed 's|^|./|'); do
    if grep -qs "^package $pk\b" $WT/$p/*.go 2>/dev/null; then echo $p; return; fi
  done
}
run_demo() { # $1 = tree
  rc=0
  for f in $demos; do
    p=$(place_demo $f); [ -z "$p" ] && { echo "no package for $f" >&2; rc=9; continue; }
    cp $f $1/$p/
    n=$(grep -o 'func Test[A-Za-z0-9_]*' $f | sed 's/func //' | paste -sd'|')
    ( cd $1 && timeout 900 go test -vet=off -count=1 -run "^($n)\$" $p >/tmp/seedverify-demo-$$.log 2>&1 ) || rc=1
    rm -f $1/$p/$(basename $f)
  done
  return $rc
}
demo_with=n/a; demo_without=n/a
if [ "$applies" = yes ] && [ -n "$demos" ]; then
  run_demo $WT && demo_with=PASS || demo_with=FAIL
  ( cd $WT && git apply -R "$D/patch.diff" )
  run_demo $WT && demo_without=PASS || demo_without=FAIL
  ( cd $WT && git apply "$D/patch.diff" )
fi
pkgtests=n/a
if [ "$applies" = yes ]; then
  ( cd $WT && go build ./... >/dev/null 2>&1 ) || pkgtests=BUILD-FAIL
  if [ "$pkgtests" = n/a ]; then
    ( cd $WT && timeout 1500 go test -vet=off -count=1 -short -skip 'TestQuickCheck|TestExtendForwardBug|TestBig' $pkgs > /tmp/seedverify-pkg-$$.log 2>&1 ) && pkgtests=PASS || pkgtests=FAIL
  fi
fi
check_exit=n/a
if [ "$applies" = yes ]; then
  /verif/seedrun.sh $ID "$D/patch.diff" $TIER > /tmp/seedverify-check-$$.log 2>&1; check_exit=$?
fi
echo "SEED $ID applies=$applies demo_with=$demo_with demo_without=$demo_without pkgtests=$pkgtests($pkgs) check_exit=$check_exit"
grep -E "violation class|quick:|thorough:" /tmp/seedverify-check-$$.log 2>/dev/null | cut -c1-260 | head -3
