import re,subprocess,sys,os,json
MISSED={
"C02":"the concurrent snapshot scenarios have no schema changes; added a sequential sub-check: more tables than hash-trie slots created in one persist interval, transactions started, tables dropped, every table must stay visible to the transactions",
"C17":"the harness turned the capacity constant into a variable, the seeded refactoring used it as an array length and did not build; the constant is now left alone and the priority-assignment scenarios run at the real capacity",
"C04":"the alphabet had no self-referencing foreign key (C21 caught the change, C04 did not); added one",
"C19":"all states of a history lay in one storage chunk; added histories with 2.5 KB / 5 KB rows that spread the state records over several chunks",
"C40":"no table with a dropped column and no record large enough for the server's squeeze path; added both to the database of the sequential differential",
"C43":"copies were never kept and modified after a racing second copy; added the copy-on-write family with kept copies and a prelude that takes the object through one copy-on-write",
"C22":"the model data was accidentally grouped under the in-list and string in-lists were thorough-only; data and quick-tier in-lists changed",
"C09":"no case took one iterator from skip-scan mode to a plain range; added the mode-change group",
"C10":"bulk builds only ran with split factors 2-4, where tree nodes never fill by size; added the size-boundary family at the real split factor",
"C03":"C03's concurrent harness has no cascading update whose cascade fails; the change is caught by C08 (sequential foreign-key model: a refused operation changes nothing / aborts the transaction)",
"C07":"C07's harness has no composite cascading foreign key; caught by C08 after a harness fix there: a panic in commit/merge (ixbuf invalid Combine) used to be an infrastructure error and is now reported as a violation",
}
lines={}
for log in sys.argv[1:]:
    txt=open(log,errors='replace').read()
    blocks=re.split(r'(?=^SEED )',txt,flags=re.M)
    for b in blocks:
        m=re.match(r'SEED (\S+) (.*)',b)
        if not m: continue
        pid,ver=m.group(1),m.group(2).strip()
        det=' ; '.join([l.strip() for l in b.splitlines()[1:] if l.strip()][:2])[:500]
        lines[pid]=(ver,det)   # later logs override
for pid,(ver,det) in sorted(lines.items()):
    name=pid+'-2'
    if os.path.exists(f'/verif/seeded/{name}/meta.json'): continue
    by=f'check {pid} (quick tier): '+det
    if 'check_exit=1' not in ver:
        if pid in ('C03','C07'):
            by='check C08 (quick tier; the property\'s own check does not reach it): VIOLATION reported, see missed_at_first'
        else:
            print('NOT CAUGHT:',pid,ver); continue
    env=dict(os.environ,SEED_SRC=f'/tmp/seed2-out/{pid}',SEED_NAME=name)
    subprocess.check_call(['/verif/seedaccept.sh',pid,ver,by],env=env)
    if pid in MISSED:
        p=f'/verif/seeded/{name}/meta.json'
        d=json.load(open(p)); d['missed_at_first']=MISSED[pid]; json.dump(d,open(p,'w'),indent=1)
