import re,subprocess,sys,os
log=open(sys.argv[1]).read()
blocks=re.split(r'(?=^SEED )',log,flags=re.M)
for b in blocks:
    m=re.match(r'SEED (\S+) (.*)',b)
    if not m: continue
    pid,ver=m.group(1),m.group(2).strip()
    if os.path.exists(f'/verif/seeded/{pid}/meta.json'): continue
    if 'check_exit=1' not in ver: 
        print('NOT CAUGHT or problem:',pid,ver); continue
    lines=[l.strip() for l in b.splitlines()[1:] if l.strip() and not l.startswith('--')]
    det=' ; '.join(lines[:2])[:500]
    subprocess.check_call(['/verif/seedaccept.sh',pid,ver,f'check {pid} (quick tier): '+det])
