#!/bin/bash
# tools/accept3.sh <ID> [missed-at-first text]  - store a verified third-round seeded change
# from /tmp/seed3-out/<ID> (+ <ID>.verify.log written by ../seedverify.sh) as /verif/seeded/<ID>-3
ID=$1; MISSED=${2:-}
L=/tmp/seed3-out/$ID.verify.log
VER=$(grep '^SEED ' $L | sed 's/^SEED [A-Z0-9]* //')
DET="check $ID (quick tier): $(grep -E 'quick:' $L | head -1) ; $(grep -E 'violation class' $L | head -1 | cut -c1-300)"
[ -n "${DET_OVERRIDE:-}" ] && DET="$DET_OVERRIDE"
SEED_SRC=/tmp/seed3-out/$ID SEED_NAME=$ID-3 /verif/seedaccept.sh $ID "$VER" "$DET"
if [ -n "$MISSED" ]; then python3 - "$ID" "$MISSED" <<'PY'
import json,sys
p=f'/verif/seeded/{sys.argv[1]}-3/meta.json'; m=json.load(open(p)); m['missed_at_first']=sys.argv[2]; json.dump(m,open(p,'w'),indent=1)
PY
fi
