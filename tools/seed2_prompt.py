import json,sys
ids=sys.argv[1].split(',')
hints=sys.argv[2]
used=[]
for i in ids:
    d=json.load(open(f'/tmp/seed-out/{i}/meta.json'))
    used.append(f"- {i}: already used (do something in a DIFFERENT mechanism or function): "+(d.get('summary') or d.get('change') or '')[:300].replace('\n',' '))
tag=ids[0]
print(f'''You are a software engineer asked to produce *realistic, subtle regressions* in the Go repository apmckinlay/gsuneido (a Suneido language implementation with an embedded transactional database and a client-server DBMS) for the purpose of evaluating how good verification tooling is. You work ONLY in scratch git worktrees of /repo that you create under /tmp; you must never modify /repo itself, and you must not read or use anything under /verif (it is off limits: do not open, list or grep it). Do not use `git stash` (the stash is shared between worktrees and other people are working at the same time).

For EACH of the following properties (full text in the JSON files given), produce ONE change to the gsuneido source that BREAKS the property while (a) the repository still compiles (`go build ./...` in the worktree) and (b) the repository's existing test suite still passes exactly as before the change. The properties:
''' + '\n'.join(f'- /tmp/seed-out/{i}.property.json' for i in ids) + f'''

A first round of such changes already exists; yours must be different ones:
''' + '\n'.join(used) + f'''

Requirements for each change:
1. It must be the kind of mistake a competent maintainer could plausibly commit ({hints}) — not sabotage, and not something ordinary use would expose at once.
2. It should need a SPECIFIC multi-step sequence, input shape, crash point or thread interleaving to manifest — say exactly which.
3. Write a DEMONSTRATION: a Go test file (placed in the appropriate package directory of the worktree, name it zz_seed_<id>_test.go) that FAILS (deterministically, or for interleavings with overwhelming probability within a few seconds) with your change applied and PASSES on the unmodified code. For tests in package dbms (or any package that imports it) copy /tmp/seedcerts/server.crt and /tmp/seedcerts/server.key into <worktree>/dbms/ (they are git-ignored embedded files the package needs to build).
4. Verify: in the worktree with the change: `go build ./...`; run the existing tests of the affected packages while iterating, and ONCE per change at the end the whole suite the way the baseline does: `cd <worktree> && TMPDIR=/tmp/seed2tmp-<ID> GOFLAGS=-mod=mod go test -vet=off -count=1 -timeout 40m ./... 2>&1 | tail -60` (mkdir the TMPDIR first; dbms/query TestCostModel writes a 2 GB file into $TMPDIR; delete the TMPDIR afterwards). Facts about the baseline: WITHOUT the two cert files, packages core, builtin, dbms, compile/check, tests, llm and the root package fail to build their tests — copy the certs in so that they build and count. db19::TestQuickCheck and dbms/query::TestExtendForwardBug fail in the baseline (also TestSearch/TestStates/TestScanner in db19 need a ../suneido.db that does not exist); db19/stor TestStress may fail with "Stor.Alloc too many retries" under load. What matters is that your change causes NO ADDITIONAL failing test compared with the unmodified tree at the same commit (a clean full run log is at /tmp/seed-out/full-clean.log for comparison). The machine is shared and loaded; be patient (use `timeout 2700`).
5. Deliver, for each property id <ID>, a directory /tmp/seed2-out/<ID>/ containing: `patch.diff` (output of `git diff` in the worktree, source change only, WITHOUT the demonstration file and without the cert files), the demonstration file(s) (top level of that directory), and `meta.json` with fields: property_id, summary, files_changed, needs_to_manifest, demo (how to run it and what it prints with/without the change), tests_run (commands and outcome, including the comparison with the clean tree).
6. Create one worktree per property: `git -C /repo worktree add --detach /tmp/seed2wt-<ID> HEAD` and when you are completely done with a property remove it together with build output: `git -C /repo worktree remove --force /tmp/seed2wt-<ID>`.

Prefer changes in the files named in each property's anchors. Final answer: a short report listing for each property the change, what it needs to manifest, the demo result with and without the change, and the test-suite comparison.''')
