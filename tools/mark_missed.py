import json,os
M={
"C32":"token strings of length <= 4 cannot spell a mistyped multiple assignment; added token-level mutations (delete / replace / insert, thorough: pairs) of 49 valid statements, expressions and queries",
"C30":"no shape read a propagated local on a path that does not pass its assignment; added 14 control-flow propagation templates (switch cases, if/else, while, for-in, try/catch, ?:, and, optional block call) with a path-selector hole",
"C02":"the snapshot scenarios only re-used iterators created before the commit; added wait/barrier ops and scenarios 'reader-new-iterator-after-commit-merge-persist' and 'updater-new-iterator-after-others-persisted' (commit ae8d037)",
"C03":"no scenario queued an abort behind other transactions' start requests and nothing forbade an aborted transaction from committing; added the abort-then-complete op, scenarios 'abort-then-complete-*' and the oracle 'an aborted transaction never commits' (commit ae8d037)",
"C05":"the tail alphabet had no garbage that looks like several complete state records, so repair's bisection between the last bad and the first good probe was never entered with more than one unknown state; added tails '2x/4x-stale-state-record'",
"C06":"the admin-thread scenario that catches it was never started in the full quick run (one scenario ate the budget: AutoDelay not passed on, scenario-major order); exploration is now bound-major with fair shares (DESIGN 9.3a)",
"C07":"the key domain had no composite unique index with an empty first column; added table w unique(a,b), scenario 'composite-unique-empty-first-column-race' and sync-tier ops on it",
"C08":"all configurations had one source table per target; added configuration 9 with two source tables referencing one target",
"C21":"persist was not an event of the BFS, so the 'created since the last persist' path of Meta.Drop was never taken with Clock > 0; added persist to the alphabet and the created-since-persist abstraction to the state key",
"C22":"the generated queries never nested two compatible operators over fixed value lists containing the empty string; added that family to the generator",
"C29":"the grammar had a single function, so no plain function ever ran at a call depth previously used by a closure; every program is now also run as a function literal nested in a wrapper that called a closure first",
"C37":"no pattern combined an in-pattern case-flag toggle with a start anchor; added family (D)",
"C40":"the sequential differential never let a second connection misbehave and did not report a failing first request; added the op 'other connection sends an invalid command' and first-request failure reporting",
"C41":"depth-3 authorization-state sequences were only in the thorough tier; the quick tier now runs the depth-3 sequences of the authorization alphabet",
"C43":"the interleaving scenarios only used closures that capture locals; added a reachability audit: after SetConcurrent every value reachable from a shared value must be concurrent",
}
for k,v in M.items():
    p=f'/verif/seeded/{k}/meta.json'
    if os.path.exists(p):
        d=json.load(open(p)); d['missed_at_first']=v; json.dump(d,open(p,'w'),indent=1); print('marked',k)
