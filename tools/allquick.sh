#!/bin/bash
cd /verif
for n in $(seq -w 1 44); do id=C$n; s=$(date +%s); out=$(./check $id quick 2>&1); rc=$?; echo "$id rc=$rc wall=$(( $(date +%s)-s ))s $(echo "$out" | grep -E "^C[0-9]+ quick" | head -1) $(echo "$out" | grep -c '^VIOLATION') violations-lines $(echo "$out" | grep -c '^KNOWN-FINDING') known"; done
