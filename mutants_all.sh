#!/bin/bash
# /verif/mutants_all.sh [ID ...]  - re-runs the overlay-only mutants listed in
# engine/checks/*/mutants.txt (file <TAB> sed script <TAB> expected exit <TAB> comment)
# against their checks (quick tier) and reports every mutant whose exit code
# differs from the expected one. /repo is never touched.
cd /verif
ids="$*"
[ -z "$ids" ] && ids=$(ls engine/checks/*/mutants.txt | sed 's|engine/checks/\(.*\)/mutants.txt|\1|' | tr 'a-z' 'A-Z')
bad=0; n=0
for ID in $ids; do
  id=$(echo $ID | tr 'A-Z' 'a-z')
  f=engine/checks/$id/mutants.txt
  [ -f $f ] || continue
  while IFS=$'\t' read -r file sed exp cm; do
    case "$file" in ''|\#*) continue;; esac
    case "$exp" in 0|1) ;; *) continue;; esac
    n=$((n+1))
    out=$(timeout 900 ./mutate.sh $ID "$file" "$sed" quick 2>&1 | tail -1)
    rc=$(echo "$out" | sed -n 's/.*mutant exit=\([0-9]*\).*/\1/p')
    if [ "$rc" != "$exp" ]; then bad=$((bad+1)); echo "MISMATCH $ID expected=$exp got=${rc:-?} :: $cm :: $out"; else echo "ok $ID exit=$rc :: $cm"; fi
  done < $f
done
echo "mutants run: $n, mismatches: $bad"
