#!/usr/bin/env python3
"""Regenerate section 9.4 of DESIGN.md (detection table) from /verif/seeded/*/meta.json
and engine/checks/*/mutants.txt."""
import json, glob, os, re
V = "/verif"
rows = []
for mf in sorted(glob.glob(f"{V}/seeded/*/meta.json")):
    m = json.load(open(mf))
    pid = m["property_id"]
    br = re.sub(r"\s+", " ", str(m.get("breaks", "")))[:260]
    need = re.sub(r"\s+", " ", str(m.get("needs_to_manifest", "")))[:200]
    det = re.sub(r"\s+", " ", str(m.get("detected_by", "")))[:260]
    if m.get("missed_at_first"):
        det = "**missed by the check as first built; check strengthened:** " + re.sub(r"\s+", " ", m["missed_at_first"])[:300] + " — now: " + det
    files = m.get("files_changed", "")
    if isinstance(files, list):
        files = ", ".join(map(str, files))
    rows.append(f"| {os.path.basename(os.path.dirname(mf))} | {pid} | `{str(files)[:80]}` — {br} | {need} | {det} |")
nm = 0
caught = 0
for mt in sorted(glob.glob(f"{V}/engine/checks/*/mutants.txt")):
    for line in open(mt):
        parts = line.rstrip("\n").split("\t")
        if len(parts) >= 3 and parts[2].strip() in ("0", "1"):
            nm += 1
            caught += parts[2].strip() == "1"
text = f"""### 9.4 Detection record

**Seeded changes** (`/verif/seeded/<id>/`: `patch.diff`, demonstration, `meta.json`). Each was written by a fresh
sub-agent that was given only the property text and its own scratch worktree (nothing from /verif), and was confirmed
by the coordinator in another scratch worktree (`seedverify.sh`: patch applies to HEAD, the demonstration fails with it
and passes without it, the touched packages' own tests still pass) before the property's check was run against
/repo + patch (`seedrun.sh`, through the build overlay; /repo untouched). Three rounds: one change per property
(`<id>`), then a second, different change for 24 properties (`<id>-2`; the sub-agents were told what the first
round had used), then a third for 10 properties that had only one (`<id>-3`: C08 C13 C25 C28 C33 C35 C36 C39 C41 C42;
again fresh sub-agents, a different mechanism each). "Missed ..." rows are changes that the check as built at that time
did not report; the check was then strengthened (never the other way round) and the change re-verified. The second-round
change C07-2 (a foreign-key cascade) was at first reported by C08 only; since the txpipe schema has a composite cascading
foreign key C07 reports it itself (C03-2 likewise by C03 and C08). Third round: C25-3 C33-3 C39-3 were reported at once
(C13-3 at once by C28, and by C13 after C13 got the values' own `Compare` as a second oracle); C08-3 C28-3 C35-3 C36-3
C41-3 C42-3 were missed and the checks strengthened (index-first recursive schema; row-backed records nested in objects;
copy-isolation family; in-place change of a range; account without a password hash; exits through a nested `t.Query` block). After the last change of the second
round all 68 changes stored then were run once more against the checks (`/verif/seeded/RESULTS.md`); the third-round
rows record the run of the strengthened check; so are the ~210 overlay-only mutants (`./mutants_all.sh`).

| seeded | property | change | needs | caught by |
|---|---|---|---|---|
""" + "\n".join(rows) + f"""

**Own mutants**: `engine/checks/*/mutants.txt` lists {nm} overlay-only mutants (sed scripts for `mutate.sh`) with their
expected exit code; {caught} are property-breaking and reported as VIOLATION by their check, the other {nm-caught} stay within
what the property allows (or are equivalent) and must pass.
"""
p = f"{V}/DESIGN.md"
s = open(p).read()
if "### 9.4 Detection record" in s:
    s = s[: s.index("### 9.4 Detection record")].rstrip() + "\n\n"
s = s.rstrip() + "\n\n" + text
open(p, "w").write(s)
print(len(rows), "seeded rows;", nm, "mutants")
