//go:build verif

// Package vrand stands in for math/rand/v2 in instrumented files: every
// random draw is an explorer choice (all outcomes are enumerated).
package vrand

import (
	"math/rand/v2"

	"github.com/apmckinlay/gsuneido/verifshim/vsched"
)

// Override, when set, answers every draw (used by harnesses that enumerate
// the outcomes themselves without the scheduler).
var Override func(n int) int

func IntN(n int) int {
	if Override != nil {
		return Override(n)
	}
	if !vsched.Active() {
		return rand.IntN(n)
	}
	if n > 8 {
		panic("vrand: IntN domain too large to enumerate")
	}
	return vsched.ChooseValue(n, "rand.IntN")
}
