//go:build verif

// Package vlog stands in for package log in instrumented files: Fatal* would
// end the process, which the model checker must observe instead; they panic
// with a *FatalError value that the scheduler reports as the execution's outcome.
// Println etc. are silenced during controlled executions.
package vlog

import (
	"fmt"
	"log"

	"github.com/apmckinlay/gsuneido/verifshim/vsched"
)

// FatalError is the panic value of a log.Fatal* call.
type FatalError struct{ Msg string }

func (f *FatalError) Error() string { return "log.Fatal: " + f.Msg }

func Println(a ...any) {
	if !vsched.Running() {
		log.Println(a...)
	}
}
func Printf(format string, a ...any) {
	if !vsched.Running() {
		log.Printf(format, a...)
	}
}
func Print(a ...any) {
	if !vsched.Running() {
		log.Print(a...)
	}
}
func Fatalln(a ...any)               { panic(&FatalError{fmt.Sprintln(a...)}) }
func Fatal(a ...any)                 { panic(&FatalError{fmt.Sprint(a...)}) }
func Fatalf(format string, a ...any) { panic(&FatalError{fmt.Sprintf(format, a...)}) }
func Panicln(a ...any)               { panic(fmt.Sprintln(a...)) }
func Panic(a ...any)                 { panic(fmt.Sprint(a...)) }
func Panicf(format string, a ...any) { panic(fmt.Sprintf(format, a...)) }
