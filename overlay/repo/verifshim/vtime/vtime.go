//go:build verif

// Package vtime stands in for package time in instrumented files: the clock
// is the scheduler's virtual clock and timers fire only through the
// scheduler's environment pseudo thread.
package vtime

import (
	"time"

	"github.com/apmckinlay/gsuneido/verifshim/vsched"
)

type (
	Time     = time.Time
	Duration = time.Duration
	Month    = time.Month
	Weekday  = time.Weekday
	Location = time.Location
)

const (
	Nanosecond  = time.Nanosecond
	Microsecond = time.Microsecond
	Millisecond = time.Millisecond
	Second      = time.Second
	Minute      = time.Minute
	Hour        = time.Hour
	RFC3339     = time.RFC3339
)

var (
	UTC   = time.UTC
	Local = time.Local
)

func Now() Time {
	if !vsched.Active() {
		return time.Now()
	}
	return time.UnixMilli(vsched.NowMs())
}

func Since(t Time) Duration { return Now().Sub(t) }
func Until(t Time) Duration { return t.Sub(Now()) }

func UnixMilli(ms int64) Time   { return time.UnixMilli(ms) }
func Unix(sec, nsec int64) Time { return time.Unix(sec, nsec) }
func Date(y int, m Month, d, h, mi, s, ns int, loc *Location) Time {
	return time.Date(y, m, d, h, mi, s, ns, loc)
}
func ParseDuration(s string) (Duration, error) { return time.ParseDuration(s) }

func ms(d Duration) int64 {
	m := d.Milliseconds()
	if m <= 0 {
		m = 1
	}
	return m
}

func Sleep(d Duration) {
	if !vsched.Active() {
		time.Sleep(d)
		return
	}
	vsched.Sleep(ms(d))
}

func After(d Duration) <-chan Time {
	if !vsched.Active() {
		return time.After(d)
	}
	c := make(chan Time, 1)
	vsched.AddTimer(ms(d), func() { vsched.RawPush(c, time.UnixMilli(vsched.NowMs())) })
	return c
}

// Ticker replaces time.Ticker.
type Ticker struct {
	C      <-chan Time
	c      chan Time
	d      int64
	cancel func()
	real   *time.Ticker
}

func NewTicker(d Duration) *Ticker {
	if !vsched.Active() {
		rt := time.NewTicker(d)
		return &Ticker{C: rt.C, real: rt}
	}
	c := make(chan Time, 1)
	t := &Ticker{C: c, c: c, d: ms(d)}
	t.arm()
	return t
}

func (t *Ticker) arm() {
	t.cancel = vsched.AddTimer(t.d, func() {
		vsched.RawPush(t.c, time.UnixMilli(vsched.NowMs()))
		t.arm()
	})
}

func (t *Ticker) Stop() {
	if t.real != nil {
		t.real.Stop()
		return
	}
	if t.cancel != nil {
		t.cancel()
	}
}

func (t *Ticker) Reset(d Duration) {
	if t.real != nil {
		t.real.Reset(d)
		return
	}
	t.Stop()
	t.d = ms(d)
	t.arm()
}
