//go:build verif

// Package vsync stands in for package sync in instrumented files.
package vsync

import "github.com/apmckinlay/gsuneido/verifshim/vsched"

type (
	Mutex     = vsched.Mutex
	RWMutex   = vsched.RWMutex
	Cond      = vsched.Cond
	WaitGroup = vsched.WaitGroup
	Once      = vsched.Once
	Locker    = vsched.Locker
	Map       = vsched.Map
	Pool      = vsched.Pool
)

func NewCond(l Locker) *Cond               { return vsched.NewCond(l) }
func OnceFunc(f func()) func()             { return vsched.OnceFunc(f) }
func OnceValue[T any](f func() T) func() T { return vsched.OnceValue(f) }
