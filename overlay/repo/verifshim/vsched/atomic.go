//go:build verif

package vsched

import "sync/atomic"

// Replacements for sync/atomic: every access is a visible operation (a
// scheduling point) followed by the plain access; since only one managed
// thread runs at a time the access itself needs no hardware atomicity, but
// the real atomic types are used underneath so pass-through mode (no
// controlled execution) stays correct under real concurrency.

type Bool struct{ v atomic.Bool }

func (x *Bool) Load() bool                    { point("a.load", nil); return x.v.Load() }
func (x *Bool) Store(b bool)                  { point("a.store", nil); x.v.Store(b) }
func (x *Bool) Swap(b bool) bool              { point("a.swap", nil); return x.v.Swap(b) }
func (x *Bool) CompareAndSwap(o, n bool) bool { point("a.cas", nil); return x.v.CompareAndSwap(o, n) }
func (x *Bool) RawLoad() bool                 { return x.v.Load() }

type Int32 struct{ v atomic.Int32 }

func (x *Int32) Load() int32                    { point("a.load", nil); return x.v.Load() }
func (x *Int32) Store(n int32)                  { point("a.store", nil); x.v.Store(n) }
func (x *Int32) Add(d int32) int32              { point("a.add", nil); return x.v.Add(d) }
func (x *Int32) Swap(n int32) int32             { point("a.swap", nil); return x.v.Swap(n) }
func (x *Int32) CompareAndSwap(o, n int32) bool { point("a.cas", nil); return x.v.CompareAndSwap(o, n) }
func (x *Int32) RawLoad() int32                 { return x.v.Load() }

type Int64 struct{ v atomic.Int64 }

func (x *Int64) Load() int64                    { point("a.load", nil); return x.v.Load() }
func (x *Int64) Store(n int64)                  { point("a.store", nil); x.v.Store(n) }
func (x *Int64) Add(d int64) int64              { point("a.add", nil); return x.v.Add(d) }
func (x *Int64) Swap(n int64) int64             { point("a.swap", nil); return x.v.Swap(n) }
func (x *Int64) CompareAndSwap(o, n int64) bool { point("a.cas", nil); return x.v.CompareAndSwap(o, n) }
func (x *Int64) RawLoad() int64                 { return x.v.Load() }

type Uint32 struct{ v atomic.Uint32 }

func (x *Uint32) Load() uint32         { point("a.load", nil); return x.v.Load() }
func (x *Uint32) Store(n uint32)       { point("a.store", nil); x.v.Store(n) }
func (x *Uint32) Add(d uint32) uint32  { point("a.add", nil); return x.v.Add(d) }
func (x *Uint32) Swap(n uint32) uint32 { point("a.swap", nil); return x.v.Swap(n) }
func (x *Uint32) CompareAndSwap(o, n uint32) bool {
	point("a.cas", nil)
	return x.v.CompareAndSwap(o, n)
}
func (x *Uint32) RawLoad() uint32 { return x.v.Load() }

type Uint64 struct{ v atomic.Uint64 }

func (x *Uint64) Load() uint64         { point("a.load", nil); return x.v.Load() }
func (x *Uint64) Store(n uint64)       { point("a.store", nil); x.v.Store(n) }
func (x *Uint64) Add(d uint64) uint64  { point("a.add", nil); return x.v.Add(d) }
func (x *Uint64) Swap(n uint64) uint64 { point("a.swap", nil); return x.v.Swap(n) }
func (x *Uint64) CompareAndSwap(o, n uint64) bool {
	point("a.cas", nil)
	return x.v.CompareAndSwap(o, n)
}
func (x *Uint64) RawLoad() uint64 { return x.v.Load() }

type Value struct{ v atomic.Value }

func (x *Value) Load() any                    { point("a.load", nil); return x.v.Load() }
func (x *Value) Store(v any)                  { point("a.store", nil); x.v.Store(v) }
func (x *Value) Swap(v any) any               { point("a.swap", nil); return x.v.Swap(v) }
func (x *Value) CompareAndSwap(o, n any) bool { point("a.cas", nil); return x.v.CompareAndSwap(o, n) }
func (x *Value) RawLoad() any                 { return x.v.Load() }

type Pointer[T any] struct{ v atomic.Pointer[T] }

func (x *Pointer[T]) Load() *T     { point("a.load", nil); return x.v.Load() }
func (x *Pointer[T]) Store(p *T)   { point("a.store", nil); x.v.Store(p) }
func (x *Pointer[T]) Swap(p *T) *T { point("a.swap", nil); return x.v.Swap(p) }
func (x *Pointer[T]) CompareAndSwap(o, n *T) bool {
	point("a.cas", nil)
	return x.v.CompareAndSwap(o, n)
}
func (x *Pointer[T]) RawLoad() *T { return x.v.Load() }

func LoadUint32(p *uint32) uint32          { point("a.load", nil); return atomic.LoadUint32(p) }
func StoreUint32(p *uint32, v uint32)      { point("a.store", nil); atomic.StoreUint32(p, v) }
func AddUint32(p *uint32, d uint32) uint32 { point("a.add", nil); return atomic.AddUint32(p, d) }
func LoadInt32(p *int32) int32             { point("a.load", nil); return atomic.LoadInt32(p) }
func StoreInt32(p *int32, v int32)         { point("a.store", nil); atomic.StoreInt32(p, v) }
func AddInt32(p *int32, d int32) int32     { point("a.add", nil); return atomic.AddInt32(p, d) }
func LoadInt64(p *int64) int64             { point("a.load", nil); return atomic.LoadInt64(p) }
func StoreInt64(p *int64, v int64)         { point("a.store", nil); atomic.StoreInt64(p, v) }
func AddInt64(p *int64, d int64) int64     { point("a.add", nil); return atomic.AddInt64(p, d) }
func LoadUint64(p *uint64) uint64          { point("a.load", nil); return atomic.LoadUint64(p) }
func StoreUint64(p *uint64, v uint64)      { point("a.store", nil); atomic.StoreUint64(p, v) }
func AddUint64(p *uint64, d uint64) uint64 { point("a.add", nil); return atomic.AddUint64(p, d) }
func CompareAndSwapUint32(p *uint32, o, n uint32) bool {
	point("a.cas", nil)
	return atomic.CompareAndSwapUint32(p, o, n)
}
func CompareAndSwapInt32(p *int32, o, n int32) bool {
	point("a.cas", nil)
	return atomic.CompareAndSwapInt32(p, o, n)
}
func CompareAndSwapInt64(p *int64, o, n int64) bool {
	point("a.cas", nil)
	return atomic.CompareAndSwapInt64(p, o, n)
}
