//go:build verif

package vsched

import (
	"cmp"
	"fmt"
	"iter"
	"slices"
	"sync"
)

// SortedMap iterates a map in ascending key order (what instrumented
// `for k, v := range m` loops over listed maps become), so that the order of
// visible operations does not depend on Go's randomised map iteration.
// Entries deleted during the iteration are skipped, as with a real map.
func SortedMap[K cmp.Ordered, V any](m map[K]V) iter.Seq2[K, V] {
	return func(yield func(K, V) bool) {
		keys := make([]K, 0, len(m))
		for k := range m {
			keys = append(keys, k)
		}
		slices.Sort(keys)
		for _, k := range keys {
			v, ok := m[k]
			if !ok {
				continue
			}
			if !yield(k, v) {
				return
			}
		}
	}
}

// Drop-in replacements for the parts of package sync the repository uses.

type Locker = sync.Locker
type Map = sync.Map
type Pool = sync.Pool

// Mutex replaces sync.Mutex.
// Outside a controlled execution every type falls back to the real primitive,
// so instrumented code also works under real concurrency.
type Mutex struct {
	locked bool
	owner  int
	real   sync.Mutex
}

func (m *Mutex) Lock() {
	if !Running() {
		m.real.Lock()
		return
	}
	point("lock", func() bool { return !m.locked })
	if s.teardown {
		return
	}
	m.locked = true
	m.owner = ThreadID()
}

func (m *Mutex) TryLock() bool {
	if !Running() {
		return m.real.TryLock()
	}
	point("trylock", nil)
	if m.locked {
		return false
	}
	m.locked = true
	m.owner = ThreadID()
	return true
}

func (m *Mutex) Unlock() {
	if !Running() {
		m.real.Unlock()
		return
	}
	if s.teardown {
		return
	}
	if !m.locked {
		panic("sync: unlock of unlocked mutex")
	}
	m.locked = false
}

// RWMutex replaces sync.RWMutex (no writer preference is modelled).
type RWMutex struct {
	writer  bool
	readers int
	real    sync.RWMutex
}

func (m *RWMutex) Lock() {
	if !Running() {
		m.real.Lock()
		return
	}
	point("wlock", func() bool { return !m.writer && m.readers == 0 })
	if s.teardown {
		return
	}
	m.writer = true
}
func (m *RWMutex) Unlock() {
	if !Running() {
		m.real.Unlock()
		return
	}
	if s.teardown {
		return
	}
	if !m.writer {
		panic("sync: Unlock of unlocked RWMutex")
	}
	m.writer = false
}
func (m *RWMutex) RLock() {
	if !Running() {
		m.real.RLock()
		return
	}
	point("rlock", func() bool { return !m.writer })
	if s.teardown {
		return
	}
	m.readers++
}
func (m *RWMutex) RUnlock() {
	if !Running() {
		m.real.RUnlock()
		return
	}
	if s.teardown {
		return
	}
	if m.readers <= 0 {
		panic("sync: RUnlock of unlocked RWMutex")
	}
	m.readers--
}
func (m *RWMutex) RLocker() Locker { return rlocker{m} }

type rlocker struct{ m *RWMutex }

func (r rlocker) Lock()   { r.m.RLock() }
func (r rlocker) Unlock() { r.m.RUnlock() }

// Cond replaces sync.Cond. Wake order is FIFO, no spurious wake-ups.
type Cond struct {
	L       Locker
	waiters []*bool
	realMu  sync.Mutex
	real    *sync.Cond
}

func (c *Cond) realCond() *sync.Cond {
	c.realMu.Lock()
	defer c.realMu.Unlock()
	if c.real == nil {
		c.real = sync.NewCond(c.L)
	}
	return c.real
}

func NewCond(l Locker) *Cond { return &Cond{L: l} }

func (c *Cond) Wait() {
	if s.teardown {
		return
	}
	if !Running() {
		c.realCond().Wait()
		return
	}
	woken := false
	c.waiters = append(c.waiters, &woken)
	c.L.Unlock()
	point("cond-wait", func() bool { return woken })
	c.L.Lock()
}

func (c *Cond) Signal() {
	if !Running() {
		c.realCond().Signal()
		return
	}
	if len(c.waiters) > 0 {
		*c.waiters[0] = true
		c.waiters = c.waiters[1:]
	}
}

func (c *Cond) Broadcast() {
	if !Running() {
		c.realCond().Broadcast()
		return
	}
	for _, w := range c.waiters {
		*w = true
	}
	c.waiters = nil
}

// WaitGroup replaces sync.WaitGroup.
type WaitGroup struct {
	n    int
	real sync.WaitGroup
}

func (wg *WaitGroup) Add(d int) {
	if !Running() {
		wg.real.Add(d)
		return
	}
	wg.n += d
	if wg.n < 0 {
		panic("sync: negative WaitGroup counter")
	}
}
func (wg *WaitGroup) Done() { wg.Add(-1) }
func (wg *WaitGroup) Wait() {
	if !Running() {
		wg.real.Wait()
		return
	}
	point("wg-wait", func() bool { return wg.n == 0 })
}
func (wg *WaitGroup) Go(f func()) {
	wg.Add(1)
	Go(func() {
		defer wg.Done()
		f()
	})
}

// Once replaces sync.Once.
type Once struct {
	m    Mutex
	done bool
}

func (o *Once) Do(f func()) {
	if o.done {
		return
	}
	o.m.Lock()
	defer o.m.Unlock()
	if !o.done {
		defer func() { o.done = true }()
		f()
	}
}

func OnceFunc(f func()) func() {
	var o Once
	return func() { o.Do(f) }
}

func OnceValue[T any](f func() T) func() T {
	var o Once
	var v T
	return func() T {
		o.Do(func() { v = f() })
		return v
	}
}

var _ = fmt.Sprint
