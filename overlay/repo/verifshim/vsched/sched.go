//go:build verif

// Package vsched is the controlled (cooperative) scheduler used by the /verif
// model-checking harnesses. It is added to the repository's import space by a
// build overlay only; nothing in the repository itself refers to it. Files
// under test are rewritten (imports and channel operations) by
// /verif/engine/cmd/instrument so that every synchronisation operation goes
// through this package.
//
// Model: exactly one managed thread runs at a time. Before every visible
// operation (lock, atomic access, channel operation, condition wait, sleep,
// coin flip) the running thread announces the operation and calls the
// scheduler, which evaluates which threads' pending operations are enabled and
// asks the Chooser which thread continues. The chosen thread executes its
// pending operation atomically and runs on to its next visible operation.
// Alternatives are presented in canonical order: the running thread first if
// it is still enabled, then ascending thread ids (with delay bounding,
// Config.FreeSwitchCost > 0: then the others in round-robin order, the one that
// has not run for longest first), then the environment (timer) pseudo thread.
package vsched

import (
	"fmt"
	"runtime"
	"runtime/debug"
	"sort"
	"strings"
	"time"
)

// Kind of a choice.
const (
	KThread = iota // which thread runs next
	KValue         // a data choice (coin flip, ready select case)
)

// Point describes one choice presented to the Chooser.
type Point struct {
	Kind int
	N    int
	// Costs[i] is the deviation cost of alternative i (KThread: 1 for switching
	// away from a still-enabled running thread or firing a timer early, else 0;
	// KValue: 0).
	Costs []int
	Label string
}

// Chooser decides every choice of an execution.
type Chooser interface {
	Choose(p *Point) int
}

// Outcome of one execution.
type Outcome struct {
	Status  string // "ok", "deadlock", "panic", "horizon", "abort"
	Detail  string
	Steps   int
	Threads int
	Points  int // choice points with more than one alternative
}

type opKind int

type op struct {
	enabled func() bool
	label   string
	obj     uintptr // identity of the object operated on (channels), 0 if none
}

type thread struct {
	id      int
	name    string
	daemon  bool
	resume  chan struct{}
	exited  chan struct{}
	pending *op
	done    bool
	killed  bool
	started bool
	// lastRan is the step at which the thread last stopped running (0: never
	// ran). With delay bounding the alternatives are offered in round-robin
	// order: the thread that has waited longest first.
	lastRan int
}

type timer struct {
	at   int64 // virtual ms
	seq  int
	fire func()
	dead bool
}

type sched struct {
	active      bool
	teardown    bool
	chooser     Chooser
	threads     []*thread
	cur         *thread
	steps       int
	maxSteps    int
	points      int
	noPreempt   int
	finished    chan Outcome
	ended       bool
	monitor     func()
	nowMs       int64
	timers      []*timer
	timerSeq    int
	timerBudg   int
	chans       map[uintptr]*chanState
	trace       []string
	tracing     bool
	symmetric   []string
	idleFires   int
	freeCost    int
	noStmtYield bool
}

var s = &sched{}

// Config for Run.
type Config struct {
	MaxSteps    int    // step horizon (default 200000)
	TimerBudget int    // how many timers the environment may fire early (each costs 1 deviation)
	StartMs     int64  // virtual clock start (unix ms)
	Monitor     func() // called after every executed step, in pass-through mode
	Trace       bool   // record a textual trace of steps (for replays)
	// Symmetric lists thread-name substrings of interchangeable worker threads
	// (same spawn site, no state carried between jobs). Among enabled threads of
	// one class that are pending on the same operation on the same object only
	// the lowest id is offered to the chooser.
	Symmetric []string
	// FreeSwitchCost is the deviation cost of picking a non-default thread when
	// the running thread is blocked or finished (default 0: only preemptions
	// cost, as in preemption bounding; 1: every departure from the default
	// schedule costs, i.e. delay bounding - used for scenarios with many threads).
	FreeSwitchCost int
	// NoStmtYield switches the statement-level scheduling points (StmtYield) off.
	NoStmtYield bool
}

// Steps returns the number of scheduling steps taken so far in this execution.
func Steps() int { return s.steps }

// Running reports whether a controlled execution (incl. its teardown and
// monitor callbacks) is in progress.
func Running() bool { return s.threads != nil }

// Active reports whether a controlled execution is in progress.
func Active() bool { return s.active && !s.teardown }

// Run executes main as thread 0 under the controlled scheduler and returns
// when all non-daemon threads have finished (or on deadlock/panic/horizon).
// All remaining threads are then terminated with runtime.Goexit.
func Run(cfg Config, ch Chooser, main func()) Outcome {
	if s.active {
		panic("vsched: nested Run")
	}
	*s = sched{active: true, chooser: ch, maxSteps: cfg.MaxSteps, monitor: cfg.Monitor,
		nowMs: cfg.StartMs, timerBudg: cfg.TimerBudget, finished: make(chan Outcome, 1),
		chans: map[uintptr]*chanState{}, tracing: cfg.Trace, symmetric: cfg.Symmetric, freeCost: cfg.FreeSwitchCost, noStmtYield: cfg.NoStmtYield}
	if s.maxSteps == 0 {
		s.maxSteps = 200000
	}
	if s.nowMs == 0 {
		s.nowMs = 1_700_000_000_000
	}
	t := s.newThread("main", false, main)
	s.cur = t
	t.started = true
	t.resume <- struct{}{}
	out := <-s.finished
	// teardown: release every parked thread, one at a time
	s.teardown = true
	for i := 0; i < len(s.threads); i++ { // threads may not grow during teardown, but be safe
		th := s.threads[i]
		select {
		case <-th.exited:
			continue
		default:
		}
		th.killed = true
		select {
		case th.resume <- struct{}{}:
		default:
		}
		select {
		case <-th.exited:
		case <-time.After(10 * time.Second):
			buf := make([]byte, 1<<20)
			n := runtime.Stack(buf, true)
			panic(fmt.Sprintf("vsched: thread %d (%s) did not exit during teardown\n%s", th.id, th.name, buf[:n]))
		}
	}
	out.Steps = s.steps
	out.Threads = len(s.threads)
	out.Points = s.points
	s.active = false
	s.teardown = false
	s.chans = nil
	s.timers = nil
	s.threads = nil
	return out
}

// Trace returns the recorded step trace of the last execution (Config.Trace).
func Trace() []string { return s.trace }

func (s *sched) newThread(name string, daemon bool, fn func()) *thread {
	t := &thread{id: len(s.threads), name: name, daemon: daemon,
		resume: make(chan struct{}, 1), exited: make(chan struct{})}
	t.pending = &op{enabled: func() bool { return true }, label: "start"}
	s.threads = append(s.threads, t)
	go func() {
		defer close(t.exited)
		<-t.resume
		if t.killed {
			return
		}
		defer func() {
			if r := recover(); r != nil {
				if !s.teardown {
					s.finish(Outcome{Status: "panic",
						Detail: fmt.Sprintf("thread %d (%s): %v\n%s", t.id, t.name, r, debug.Stack())})
				}
				return
			}
			// normal return or Goexit
			if s.teardown || t.killed {
				return
			}
			t.done = true
			s.logf("T%d exit", t.id)
			s.reschedule(t, true)
		}()
		t.pending = nil
		fn()
	}()
	return t
}

func (s *sched) finish(o Outcome) {
	if s.ended {
		return
	}
	s.ended = true
	s.finished <- o
}

func (s *sched) logf(format string, a ...any) {
	if s.tracing {
		s.trace = append(s.trace, fmt.Sprintf(format, a...))
	}
}

// Go starts fn as a managed daemon thread (what instrumented `go` statements
// become). Outside a controlled execution it is a plain go statement.
func Go(fn func()) {
	GoNamed("", true, fn)
}

// GoNamed starts a managed thread; non-daemon threads must finish before the
// execution ends.
func GoNamed(name string, daemon bool, fn func()) {
	if !s.active {
		go fn()
		return
	}
	if s.teardown {
		return
	}
	if name == "" {
		name = callerName()
	}
	t := s.newThread(name, daemon, fn)
	s.logf("T%d spawn T%d %s", s.cur.id, t.id, name)
}

func callerName() string {
	pc, _, _, ok := runtime.Caller(3)
	if !ok {
		return "?"
	}
	f := runtime.FuncForPC(pc)
	if f == nil {
		return "?"
	}
	n := f.Name()
	if i := strings.LastIndex(n, "/"); i >= 0 {
		n = n[i+1:]
	}
	return n
}

// NoPreempt(true) starts a region in which the scheduler takes no
// alternatives while the running thread is enabled (used for deterministic
// set-up phases); NoPreempt(false) ends it. Regions nest.
func NoPreempt(on bool) {
	if on {
		s.noPreempt++
	} else {
		s.noPreempt--
	}
}

// ThreadID returns the id of the running managed thread (-1 if none).
func ThreadID() int {
	if s.active && s.cur != nil {
		return s.cur.id
	}
	return -1
}

// Settle lets every other thread run until all of them are blocked, then
// returns (used at the end of a deterministic set-up phase so that freshly
// spawned service threads are parked at their first blocking operation).
func Settle() {
	if !Active() {
		return
	}
	self := s.cur
	point("settle", func() bool {
		for _, t := range s.threads {
			if t != self && !t.done && t.pending != nil && t.pending.enabled() {
				return false
			}
		}
		return true
	})
}

// WaitUntil blocks the running thread until cond() holds (cond is evaluated by
// the scheduler; it must only read state that changes at visible operations).
// Harness-side models of blocking devices (pipes) are built from it.
func WaitUntil(label string, cond func() bool) { point(label, cond) }

// ChooseDeviation is an environment choice among n answers where answer 0 is
// the default (cost 0) and every other answer costs one deviation.
func ChooseDeviation(n int, label string) int {
	if !Active() || n <= 1 {
		return 0
	}
	costs := make([]int, n)
	for i := 1; i < n; i++ {
		costs[i] = 1
	}
	s.points++
	k := s.chooser.Choose(&Point{Kind: KValue, N: n, Costs: costs, Label: label})
	if k < 0 || k >= n {
		panic(fmt.Sprintf("vsched: chooser returned %d of %d", k, n))
	}
	s.logf("T%d env %s = %d", s.cur.id, label, k)
	return k
}

// Yield is a visible no-op (a pure scheduling point).
func Yield() { point("yield", nil) }

// StmtYield is the scheduling point that the instrumenter puts before every
// statement of the functions selected by "yieldFuncs"; Config.NoStmtYield
// switches these points off for an execution (the same binary can then explore
// a scenario at synchronisation-operation granularity with a deeper bound and
// at statement granularity with a smaller one).
func StmtYield() {
	if s.noStmtYield {
		return
	}
	point("yield", nil)
}

// Abort ends the execution from inside a thread (e.g. harness found what it
// needed or wants to cut a scenario); never returns.
func Abort(detail string) {
	if !Active() {
		return
	}
	s.finish(Outcome{Status: "abort", Detail: detail})
	park(s.cur)
}

// point announces a visible operation of the running thread and returns when
// the thread has been chosen to execute it. enabled==nil means always enabled.
func point(label string, enabled func() bool) { pointObj(label, 0, enabled) }

func pointObj(label string, obj uintptr, enabled func() bool) {
	if !s.active {
		if enabled != nil && !enabled() {
			panic("vsched: operation would block outside a controlled execution: " + label)
		}
		return
	}
	if s.teardown {
		// a dying thread (deferred calls during Goexit) or a stray goroutine
		return
	}
	t := s.cur
	if enabled == nil {
		enabled = alwaysEnabled
	}
	t.pending = &op{enabled: enabled, label: label, obj: obj}
	s.reschedule(t, false)
	t.pending = nil
}

func alwaysEnabled() bool { return true }

func park(t *thread) {
	<-t.resume
	if t.killed {
		runtime.Goexit()
	}
}

// reschedule picks the next thread to run. self is the calling thread; if
// exiting, self does not park.
func (s *sched) reschedule(self *thread, exiting bool) {
	for {
		if s.ended {
			if exiting {
				return
			}
			park(self)
			return // only when killed: Goexit happens in park
		}
		s.steps++
		if s.steps > s.maxSteps {
			s.finish(Outcome{Status: "horizon", Detail: fmt.Sprintf("step horizon %d reached", s.maxSteps)})
			continue
		}
		// all non-daemon threads done?
		alive := false
		for _, t := range s.threads {
			if !t.daemon && !t.done {
				alive = true
				break
			}
		}
		if !alive {
			s.finish(Outcome{Status: "ok"})
			continue
		}
		// enabled set in canonical order
		var en []*thread
		selfEnabled := !exiting && self.pending.enabled()
		if selfEnabled {
			en = append(en, self)
		}
		for _, t := range s.threads {
			if t == self || t.done || t.pending == nil {
				continue
			}
			if t.pending.enabled() && !s.redundant(t, en) {
				en = append(en, t)
			}
		}
		if s.freeCost > 0 {
			// delay bounding (Emmi, Qadeer, Rakamaric): the default scheduler is
			// a non-preemptive round-robin; a thread that is delayed goes to the back
			// of the queue, so that one deviation lets all the others run before it
			rest := en
			if selfEnabled {
				rest = en[1:]
			}
			sort.SliceStable(rest, func(i, j int) bool { return rest[i].lastRan < rest[j].lastRan })
		}
		nt := s.nextTimer()
		if len(en) == 0 {
			if nt != nil && s.idleFires < 25 {
				s.idleFires++
				s.fireTimer(nt) // time passes when everybody waits
				continue
			}
			s.finish(Outcome{Status: "deadlock", Detail: s.describe()})
			continue
		}
		var next *thread
		envAlt := nt != nil && s.timerBudg > 0 && s.noPreempt == 0
		switch {
		case s.noPreempt > 0:
			next = en[0]
		case len(en) == 1 && !envAlt:
			next = en[0]
		default:
			n := len(en)
			if envAlt {
				n++
			}
			costs := make([]int, n)
			for i := range costs {
				if i > 0 {
					if selfEnabled {
						costs[i] = 1
					} else {
						costs[i] = s.freeCost
					}
				}
			}
			if envAlt {
				costs[n-1] = 1
			}
			s.points++
			lbl := ""
			if s.tracing {
				lbl = fmt.Sprintf("T%d@%s", self.id, opLabel(self))
			}
			k := s.chooser.Choose(&Point{Kind: KThread, N: n, Costs: costs, Label: lbl})
			if k < 0 || k >= n {
				panic(fmt.Sprintf("vsched: chooser returned %d of %d", k, n))
			}
			if envAlt && k == n-1 {
				s.timerBudg--
				s.fireTimer(nt)
				continue
			}
			next = en[k]
		}
		if s.tracing {
			s.logf("T%d %s", next.id, opLabel(next))
		}
		if !next.daemon {
			s.idleFires = 0
		}
		if next == self {
			s.afterStep()
			return
		}
		self.lastRan = s.steps
		s.cur = next
		next.resume <- struct{}{}
		if exiting {
			return
		}
		park(self)
		// resumed: we were chosen, our pending op is enabled
		s.afterStep()
		return
	}
}

// redundant reports whether t is interchangeable with a thread already in en.
func (s *sched) redundant(t *thread, en []*thread) bool {
	if len(s.symmetric) == 0 {
		return false
	}
	sym := false
	for _, n := range s.symmetric {
		if strings.Contains(t.name, n) {
			sym = true
			break
		}
	}
	if !sym {
		return false
	}
	for _, o := range en {
		if o.name == t.name && o.pending != nil && o.pending.label == t.pending.label &&
			o.pending.obj == t.pending.obj && (t.pending.obj != 0 || t.pending.label == "start") {
			return true
		}
	}
	return false
}

func opLabel(t *thread) string {
	if t.pending == nil {
		return "-"
	}
	return t.pending.label
}

// afterStep runs the monitor (in pass-through mode) just before the chosen
// thread executes its operation; the monitor therefore observes every state
// between visible operations.
func (s *sched) afterStep() {
	if s.monitor != nil && !s.ended {
		s.active = false
		func() {
			defer func() { s.active = true }()
			s.monitor()
		}()
	}
}

func (s *sched) describe() string {
	var sb strings.Builder
	for _, t := range s.threads {
		if t.done {
			continue
		}
		fmt.Fprintf(&sb, "T%d(%s daemon=%v) blocked at %s; ", t.id, t.name, t.daemon, opLabel(t))
	}
	return sb.String()
}

// ---- virtual time ---------------------------------------------------------

// NowMs returns the virtual clock in unix milliseconds.
func NowMs() int64 {
	if !s.active {
		return time.Now().UnixMilli()
	}
	return s.nowMs
}

// AdvanceMs moves the virtual clock forward without firing timers that are not
// yet due (harness "clock event").
func AdvanceMs(d int64) {
	s.nowMs += d
}

// AddTimer registers fire to be called (by the scheduler) when the virtual
// clock reaches now+d ms. Returns a cancel function.
func AddTimer(dMs int64, fire func()) (cancel func()) {
	if !s.active {
		panic("vsched: AddTimer outside a controlled execution")
	}
	s.timerSeq++
	tm := &timer{at: s.nowMs + dMs, seq: s.timerSeq, fire: fire}
	s.timers = append(s.timers, tm)
	return func() { tm.dead = true }
}

func (s *sched) nextTimer() *timer {
	var best *timer
	live := s.timers[:0]
	for _, tm := range s.timers {
		if tm.dead {
			continue
		}
		live = append(live, tm)
		if best == nil || tm.at < best.at || tm.at == best.at && tm.seq < best.seq {
			best = tm
		}
	}
	s.timers = live
	return best
}

func (s *sched) fireTimer(tm *timer) {
	tm.dead = true
	if tm.at > s.nowMs {
		s.nowMs = tm.at
	}
	s.logf("env timer fires at +%dms", s.nowMs)
	tm.fire()
}

// Sleep blocks the running thread until the virtual clock has advanced d ms.
func Sleep(dMs int64) {
	if !Active() {
		return
	}
	fired := false
	AddTimer(dMs, func() { fired = true })
	point("sleep", func() bool { return fired })
}

// ---- data choices ---------------------------------------------------------

// ChooseValue is an environment/data choice among n alternatives at no cost
// (both outcomes of a coin are always explored).
func ChooseValue(n int, label string) int {
	if !Active() || n <= 1 {
		return 0
	}
	s.points++
	k := s.chooser.Choose(&Point{Kind: KValue, N: n, Costs: make([]int, n), Label: label})
	if k < 0 || k >= n {
		panic(fmt.Sprintf("vsched: chooser returned %d of %d", k, n))
	}
	s.logf("T%d choose %s = %d", s.cur.id, label, k)
	return k
}

// SortedThreadNames is a debugging helper.
func SortedThreadNames() []string {
	var out []string
	for _, t := range s.threads {
		out = append(out, fmt.Sprintf("%d:%s", t.id, t.name))
	}
	sort.Strings(out)
	return out
}
