//go:build verif

package vsched

import (
	"iter"
	"reflect"
)

// Channels keep their Go types (`chan T`) in instrumented code; only the
// operations are rewritten to the generic functions below. During a
// controlled execution the real channel is used purely as an identity: its
// contents live in a side table owned by the scheduler, so enabledness of
// every send/receive is known. Outside a controlled execution the functions
// fall through to the real channel operations.

type chanState struct {
	ref    any // keeps the channel alive so its address is not reused
	cap    int
	buf    []any
	closed bool
	// unbuffered rendezvous: a sender deposits into slot and then waits until
	// the receiver has taken it
	slotFull bool
	slotVal  any
	taken    *bool
	// number of threads currently blocked in a plain receive on this channel
	// (makes a select send case on an unbuffered channel decidable)
	recvWaiting int
}

func chanKey(c any) uintptr {
	return reflect.ValueOf(c).Pointer()
}

func state(c any, capacity int) *chanState {
	k := chanKey(c)
	if k == 0 {
		return nil // nil channel: blocks forever
	}
	st := s.chans[k]
	if st == nil {
		st = &chanState{ref: c, cap: capacity}
		s.chans[k] = st
	}
	return st
}

func (st *chanState) canRecv() bool {
	if st == nil {
		return false
	}
	if st.cap == 0 {
		return st.slotFull || st.closed
	}
	return len(st.buf) > 0 || st.closed
}

func (st *chanState) canSend() bool {
	if st == nil {
		return false
	}
	if st.closed {
		return true // will panic, like the real thing
	}
	if st.cap == 0 {
		return !st.slotFull
	}
	return len(st.buf) < st.cap
}

func (st *chanState) doRecv() (any, bool) {
	if st.cap == 0 {
		if st.slotFull {
			v := st.slotVal
			st.slotFull = false
			st.slotVal = nil
			*st.taken = true
			return v, true
		}
		return nil, false // closed
	}
	if len(st.buf) > 0 {
		v := st.buf[0]
		st.buf[0] = nil
		st.buf = st.buf[1:]
		return v, true
	}
	return nil, false // closed and drained
}

// rawPush is used by timers: non-blocking send that drops when full.
func rawPush[T any](c chan T, v T) {
	st := state(c, cap(c))
	if st.cap == 0 || len(st.buf) < st.cap {
		if st.cap == 0 {
			panic("vsched: timer channel must be buffered")
		}
		st.buf = append(st.buf, v)
	}
}

// RawPush delivers v to a buffered channel from a timer callback (drops when
// the buffer is full, like time.Ticker).
func RawPush[T any](c chan T, v T) { rawPush(c, v) }

// Sender wraps the channel of a send so that the element type is inferred
// from the channel alone (`c <- v` becomes vsched.To(c).Send(v), and v is
// converted by ordinary assignability, e.g. a string sent on a chan any).
type Sender[T any] struct{ c chan<- T }

// To starts a send on c.
func To[T any](c chan<- T) Sender[T] { return Sender[T]{c} }

// Send is `c <- v`.
func (sd Sender[T]) Send(v T) { Send(sd.c, v) }

// Case builds a send case for Select.
func (sd Sender[T]) Case(v T) *SCase[T] { return SendCase(sd.c, v) }

// Send is `c <- v` when the value already has the channel's element type.
func Send[T any](c chan<- T, v T) {
	if !Active() {
		if s.teardown {
			return
		}
		c <- v
		return
	}
	st := state(c, cap(c))
	point("send", st.canSend)
	if s.teardown {
		return
	}
	if st.closed {
		panic("send on closed channel")
	}
	if st.cap > 0 {
		st.buf = append(st.buf, v)
		return
	}
	taken := false
	st.slotFull, st.slotVal, st.taken = true, v, &taken
	point("send-rendezvous", func() bool { return taken })
}

// Recv is `<-c`.
func Recv[T any](c <-chan T) T {
	v, _ := Recv2(c)
	return v
}

// Recv2 is `v, ok := <-c`.
func Recv2[T any](c <-chan T) (T, bool) {
	var zero T
	if !Active() {
		if s.teardown {
			return zero, false
		}
		v, ok := <-c
		return v, ok
	}
	st := state(c, cap(c))
	if st != nil {
		st.recvWaiting++
	}
	pointObj("recv", chanKey(c), st.canRecv)
	if s.teardown {
		return zero, false
	}
	st.recvWaiting--
	v, ok := st.doRecv()
	if !ok {
		return zero, false
	}
	return conv[T](v), true
}

func conv[T any](v any) T {
	if v == nil {
		var z T
		return z
	}
	return v.(T)
}

// Close is `close(c)`.
func Close[T any](c chan<- T) {
	if !Active() {
		if s.teardown {
			return
		}
		close(c)
		return
	}
	st := state(c, cap(c))
	point("close", nil)
	if s.teardown {
		return
	}
	if st == nil {
		panic("close of nil channel")
	}
	if st.closed {
		panic("close of closed channel")
	}
	st.closed = true
}

// Range is `for v := range c`.
func Range[T any](c <-chan T) iter.Seq[T] {
	return func(yield func(T) bool) {
		for {
			v, ok := Recv2(c)
			if !ok {
				return
			}
			if !yield(v) {
				return
			}
		}
	}
}

// ---- select ---------------------------------------------------------------

// SelCase is one case of a rewritten select statement.
type SelCase interface {
	ready() bool
	exec()
	realCase() reflect.SelectCase
	setReal(v reflect.Value, ok bool)
}

// RCase is a receive case.
type RCase[T any] struct {
	c  <-chan T
	st *chanState
	v  T
	ok bool
}

// RecvCase builds a receive case for Select.
func RecvCase[T any](c <-chan T) *RCase[T] {
	rc := &RCase[T]{c: c}
	if Active() {
		rc.st = state(c, cap(c))
	}
	return rc
}

func (rc *RCase[T]) ready() bool { return rc.st.canRecv() }
func (rc *RCase[T]) exec() {
	v, ok := rc.st.doRecv()
	if ok {
		rc.v, rc.ok = conv[T](v), true
	}
}
func (rc *RCase[T]) realCase() reflect.SelectCase {
	return reflect.SelectCase{Dir: reflect.SelectRecv, Chan: reflect.ValueOf(rc.c)}
}
func (rc *RCase[T]) setReal(v reflect.Value, ok bool) {
	if ok {
		rc.v, rc.ok = conv[T](v.Interface()), true
	}
}

// Get returns the received value and ok flag after Select chose this case.
func (rc *RCase[T]) Get() (T, bool) { return rc.v, rc.ok }

// Val returns the received value.
func (rc *RCase[T]) Val() T { return rc.v }

// SCase is a send case.
type SCase[T any] struct {
	c  chan<- T
	st *chanState
	v  T
}

// SendCase builds a send case for Select.
func SendCase[T any](c chan<- T, v T) *SCase[T] {
	sc := &SCase[T]{c: c, v: v}
	if Active() {
		sc.st = state(c, cap(c))
	}
	return sc
}

func (sc *SCase[T]) ready() bool {
	if sc.st != nil && sc.st.cap == 0 && !sc.st.closed {
		// rendezvous: ready only if a receiver is blocked on the channel
		return sc.st.recvWaiting > 0 && !sc.st.slotFull
	}
	return sc.st.canSend()
}
func (sc *SCase[T]) exec() {
	if sc.st.closed {
		panic("send on closed channel")
	}
	if sc.st.cap == 0 {
		// hand the value to the waiting receiver; it is enabled from now on
		taken := false
		sc.st.slotFull, sc.st.slotVal, sc.st.taken = true, sc.v, &taken
		return
	}
	sc.st.buf = append(sc.st.buf, sc.v)
}
func (sc *SCase[T]) realCase() reflect.SelectCase {
	return reflect.SelectCase{Dir: reflect.SelectSend, Chan: reflect.ValueOf(sc.c), Send: reflect.ValueOf(sc.v)}
}
func (sc *SCase[T]) setReal(reflect.Value, bool) {}

// Select performs a select statement over cases and returns the index of the
// case that was executed, or len(cases) for the default case. When several
// cases are ready the pick is a free (cost 0) choice.
func Select(hasDefault bool, cases ...SelCase) int {
	if !Active() {
		if s.teardown {
			return len(cases)
		}
		rc := make([]reflect.SelectCase, 0, len(cases)+1)
		for _, c := range cases {
			rc = append(rc, c.realCase())
		}
		if hasDefault {
			rc = append(rc, reflect.SelectCase{Dir: reflect.SelectDefault})
		}
		i, v, ok := reflect.Select(rc)
		if i < len(cases) {
			cases[i].setReal(v, ok)
		}
		return i
	}
	anyReady := func() bool {
		if hasDefault {
			return true
		}
		for _, c := range cases {
			if c.ready() {
				return true
			}
		}
		return false
	}
	point("select", anyReady)
	if s.teardown {
		return len(cases)
	}
	var ready []int
	for i, c := range cases {
		if c.ready() {
			ready = append(ready, i)
		}
	}
	if len(ready) == 0 {
		return len(cases) // default
	}
	k := 0
	if len(ready) > 1 {
		k = ChooseValue(len(ready), "select-case")
	}
	cases[ready[k]].exec()
	return ready[k]
}
