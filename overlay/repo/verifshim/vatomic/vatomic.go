//go:build verif

// Package vatomic stands in for package sync/atomic in instrumented files.
package vatomic

import "github.com/apmckinlay/gsuneido/verifshim/vsched"

type (
	Bool   = vsched.Bool
	Int32  = vsched.Int32
	Int64  = vsched.Int64
	Uint32 = vsched.Uint32
	Uint64 = vsched.Uint64
	Value  = vsched.Value
)

type Pointer[T any] = vsched.Pointer[T]

func LoadUint32(p *uint32) uint32          { return vsched.LoadUint32(p) }
func StoreUint32(p *uint32, v uint32)      { vsched.StoreUint32(p, v) }
func AddUint32(p *uint32, d uint32) uint32 { return vsched.AddUint32(p, d) }
func LoadInt32(p *int32) int32             { return vsched.LoadInt32(p) }
func StoreInt32(p *int32, v int32)         { vsched.StoreInt32(p, v) }
func AddInt32(p *int32, d int32) int32     { return vsched.AddInt32(p, d) }
func LoadInt64(p *int64) int64             { return vsched.LoadInt64(p) }
func StoreInt64(p *int64, v int64)         { vsched.StoreInt64(p, v) }
func AddInt64(p *int64, d int64) int64     { return vsched.AddInt64(p, d) }
func LoadUint64(p *uint64) uint64          { return vsched.LoadUint64(p) }
func StoreUint64(p *uint64, v uint64)      { vsched.StoreUint64(p, v) }
func AddUint64(p *uint64, d uint64) uint64 { return vsched.AddUint64(p, d) }
func CompareAndSwapUint32(p *uint32, o, n uint32) bool {
	return vsched.CompareAndSwapUint32(p, o, n)
}
func CompareAndSwapInt32(p *int32, o, n int32) bool { return vsched.CompareAndSwapInt32(p, o, n) }
func CompareAndSwapInt64(p *int64, o, n int64) bool { return vsched.CompareAndSwapInt64(p, o, n) }
