#!/bin/bash
# /verif/seedrun.sh <ID> <patch.diff> [quick|thorough]
# Runs check <ID> against /repo + a seeded patch WITHOUT touching /repo: the patch
# is applied in a throw-away worktree and the changed files are delivered through
# the build overlay (same mechanism as mutate.sh). Output of the run goes to
# build/mutrun. Exit code = the check's exit code (1 = violation detected).
set -u
ID="${1:?}"; PATCH="$(readlink -f "${2:?}")"; TIER="${3:-quick}"
id=$(echo "$ID" | tr 'A-Z' 'a-z')
V=/verif
export GOFLAGS=-mod=mod GOPROXY=off
WT=/tmp/seedeval-$$
git -C /repo worktree add -q --detach $WT HEAD || exit 2
trap 'git -C /repo worktree remove --force $WT >/dev/null 2>&1' EXIT
( cd $WT && git apply "$PATCH" ) || { echo "seedrun: patch does not apply to /repo HEAD" >&2; exit 2; }
maps=""
mkdir -p $V/build/$id/seed
for f in $(cd $WT && git diff --name-only); do
  case "$f" in *_test.go) continue;; esac
  mkdir -p "$(dirname $V/build/$id/seed/$f)"
  cp $WT/$f $V/build/$id/seed/$f
  maps="$maps$f=$V/build/$id/seed/$f;"
done
# new (untracked) non-test source files
for f in $(cd $WT && git ls-files --others --exclude-standard | grep '\.go$' | grep -v '_test\.go$'); do
  mkdir -p "$(dirname $V/build/$id/seed/$f)"
  cp $WT/$f $V/build/$id/seed/$f
  maps="$maps$f=$V/build/$id/seed/$f;"
done
cd $V/engine
cmp -s /repo/go.sum go.sum.repo 2>/dev/null || { cp /repo/go.sum go.sum.repo; cat /repo/go.sum go.sum.extra 2>/dev/null | sort -u > go.sum; }
VERIF_MUT_FILES="$maps" python3 $V/engine/mkoverlay.py $id > $V/build/$id/overlay-seed.json || exit 2
if ! go build -tags verif -overlay $V/build/$id/overlay-seed.json -o $V/build/bin/$id-seed ./checks/$id 2> $V/build/$id/build-seed.log; then
  echo "SEEDED-TREE-DOES-NOT-BUILD-WITH-HARNESS (see $V/build/$id/build-seed.log)"; tail -15 $V/build/$id/build-seed.log; exit 3
fi
cd $V
VERIF_MUTRUN=1 VERIF_TIER=$TIER $V/build/bin/$id-seed --tier "$TIER"
rc=$?
echo "seeded run exit=$rc"
exit $rc
